"""Construction histories: operators are built one after the other IN ONE PROCESS for basis sets that carry the same degree-of-freedom
names and sizes but different parameters (frequency, shifted origin, DVR flag, grid, basis class).  Every operator of the history must
equal its own dense reference -- anything the library keeps between constructions (caches keyed by names, class-level state) shows up
as a mismatch of a LATER operator.  Used by C01 (chains) and C02 (trees)."""
import itertools

import numpy as np

from mc import env  # noqa: F401
from mc.ref.dense import kron_all


def variants():
    """name -> list of basis sets; all variants use the dof names ("s", "v1", "v2") and the sizes (2, 3, 2)"""
    from renormalizer.model import basis as ba
    V = {}
    V["sho"] = [ba.BasisHalfSpin("s"), ba.BasisSHO("v1", 1.0, 3), ba.BasisSHO("v2", 1.3, 2)]
    V["sho-stiffer"] = [ba.BasisHalfSpin("s"), ba.BasisSHO("v1", 2.0, 3), ba.BasisSHO("v2", 2.6, 2)]
    V["sho-shifted"] = [ba.BasisHalfSpin("s"), ba.BasisSHO("v1", 1.0, 3, x0=0.7), ba.BasisSHO("v2", 1.3, 2, x0=-0.4)]
    V["sho-dvr"] = [ba.BasisHalfSpin("s"), ba.BasisSHO("v1", 1.0, 3, dvr=True), ba.BasisSHO("v2", 1.3, 2, dvr=True)]
    V["sine-dvr"] = [ba.BasisHalfSpin("s"), ba.BasisSineDVR("v1", 3, -1.0, 1.0), ba.BasisSineDVR("v2", 2, -2.0, 1.5)]
    V["sine-dvr-wide"] = [ba.BasisHalfSpin("s"), ba.BasisSineDVR("v1", 3, -3.0, 2.0), ba.BasisSineDVR("v2", 2, -0.5, 0.5)]
    return V


# terms as (factor, {site: symbol}); symbols valid for every variant
TERMS = [
    (0.5, {1: "x^2"}), (0.25, {2: "x^2"}), (0.5, {1: "p^2"}), (0.5, {2: "p^2"}),
    (0.3, {0: "sigma_z", 1: "x"}), (-0.2, {0: "sigma_x", 2: "x"}), (0.15, {1: "x", 2: "x"}), (0.4, {0: "sigma_z"}),
    (0.05, {0: "sigma_x", 1: "x", 2: "x^2"}),
]


def ops_of(basis_list):
    from renormalizer.model import Op
    out = []
    for f, d in TERMS:
        sites = sorted(d)
        out.append(Op(" ".join(d[i] for i in sites), [basis_list[i].dof for i in sites], f))
    return out


def dense_of(basis_list):
    dims = [b.nbas for b in basis_list]
    D = np.zeros((int(np.prod(dims)),) * 2, dtype=complex)
    for f, d in TERMS:
        mats = [np.asarray(basis_list[i].op_mat(d[i])) if i in d else np.eye(dims[i]) for i in range(len(basis_list))]
        D = D + f * kron_all(mats)
    return D


def histories(tier):
    names = list(variants())
    if tier == "quick":
        # every ordered pair
        return [list(p) for p in itertools.permutations(names, 2)]
    return [list(p) for p in itertools.permutations(names, 2)] + [list(p) for p in itertools.permutations(names, 3)]
