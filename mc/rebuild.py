"""Construction histories: operators are built one after the other IN ONE PROCESS for basis sets that carry the same degree-of-freedom
names and sizes but different parameters (frequency, shifted origin, DVR flag, grid, basis class).  Every operator of the history must
equal its own dense reference -- anything the library keeps between constructions (caches keyed by names, class-level state) shows up
as a mismatch of a LATER operator.  Used by C01 (chains) and C02 (trees)."""
import itertools

import numpy as np

from mc import env  # noqa: F401
from mc.ref.dense import kron_all


def variants():
    """name -> list of basis sets; all variants use the dof names ("s", "v1", "v2") and the sizes (2, 3, 2)"""
    from renormalizer.model import basis as ba
    V = {}
    V["sho"] = [ba.BasisHalfSpin("s"), ba.BasisSHO("v1", 1.0, 3), ba.BasisSHO("v2", 1.3, 2)]
    V["sho-stiffer"] = [ba.BasisHalfSpin("s"), ba.BasisSHO("v1", 2.0, 3), ba.BasisSHO("v2", 2.6, 2)]
    V["sho-shifted"] = [ba.BasisHalfSpin("s"), ba.BasisSHO("v1", 1.0, 3, x0=0.7), ba.BasisSHO("v2", 1.3, 2, x0=-0.4)]
    V["sho-dvr"] = [ba.BasisHalfSpin("s"), ba.BasisSHO("v1", 1.0, 3, dvr=True), ba.BasisSHO("v2", 1.3, 2, dvr=True)]
    V["sine-dvr"] = [ba.BasisHalfSpin("s"), ba.BasisSineDVR("v1", 3, -1.0, 1.0), ba.BasisSineDVR("v2", 2, -2.0, 1.5)]
    V["sine-dvr-wide"] = [ba.BasisHalfSpin("s"), ba.BasisSineDVR("v1", 3, -3.0, 2.0), ba.BasisSineDVR("v2", 2, -0.5, 0.5)]
    return V


# terms as (factor, {site: symbol}); symbols valid for every variant
TERMS = [
    (0.5, {1: "x^2"}), (0.25, {2: "x^2"}), (0.5, {1: "p^2"}), (0.5, {2: "p^2"}),
    (0.3, {0: "sigma_z", 1: "x"}), (-0.2, {0: "sigma_x", 2: "x"}), (0.15, {1: "x", 2: "x"}), (0.4, {0: "sigma_z"}),
    (0.05, {0: "sigma_x", 1: "x", 2: "x^2"}),
]


def ops_of(basis_list):
    from renormalizer.model import Op
    out = []
    for f, d in TERMS:
        sites = sorted(d)
        out.append(Op(" ".join(d[i] for i in sites), [basis_list[i].dof for i in sites], f))
    return out


def dense_of(basis_list):
    dims = [b.nbas for b in basis_list]
    D = np.zeros((int(np.prod(dims)),) * 2, dtype=complex)
    for f, d in TERMS:
        mats = [np.asarray(basis_list[i].op_mat(d[i])) if i in d else np.eye(dims[i]) for i in range(len(basis_list))]
        D = D + f * kron_all(mats)
    return D


def histories(tier):
    names = list(variants())
    if tier == "quick":
        # every ordered pair
        return [list(p) for p in itertools.permutations(names, 2)]
    return [list(p) for p in itertools.permutations(names, 2)] + [list(p) for p in itertools.permutations(names, 3)]


# ---------------------------------------------------------------------------------------------------------------------------------
# (2) the SAME term-list object edited in place between two constructions on the same model / tree object

def inplace_edits():
    """name -> function(list) that edits the list IN PLACE (same python object afterwards)"""
    from renormalizer.model import Op
    def replace(h):
        h[1] = Op("sigma_x", "s", 1.7)
    def append(h):
        h.append(Op("x", "v1", -0.9))
    def iadd(h):
        h += [Op("sigma_z x", ["s", "v2"], 0.45)]
    def delete(h):
        del h[0]
    def rescale(h):
        h[0] = h[0] * 3.0
    return {"replace-one-term": replace, "append": append, "+=": iadd, "delete": delete, "rescale-one-term": rescale}


def dense_of_ops(basis_list, ops):
    """dense sum of the given Op list; every factor acts on the site that holds its dof (own dof -> site map, own grouping)"""
    from renormalizer.model import Op
    dims = [b.nbas for b in basis_list]
    site_of = {}
    for i, b in enumerate(basis_list):
        for d in b.dofs:
            site_of[d] = i
    D = np.zeros((int(np.prod(dims)),) * 2, dtype=complex)
    for op in ops:
        per = {}
        for sym, dof in zip(op.split_symbol, op.dofs):
            per.setdefault(site_of[dof], ([], []))
            per[site_of[dof]][0].append(sym)
            per[site_of[dof]][1].append(dof)
        mats = [np.eye(d, dtype=complex) for d in dims]
        for i, (syms, dofs) in per.items():
            b = basis_list[i]
            if len(b.dofs) > 1:
                mats[i] = np.asarray(b.op_mat(Op(" ".join(syms), dofs)), dtype=complex)
            else:
                m = np.eye(dims[i], dtype=complex)
                for sy in syms:
                    m = m @ np.asarray(b.op_mat(sy), dtype=complex)
                mats[i] = m
        D = D + op.factor * kron_all(mats)
    return D


# ---------------------------------------------------------------------------------------------------------------------------------
# (3) the SAME Op objects used for models that group the degrees of freedom into sites differently

def regroupings():
    """name -> basis list over the dofs e0, e1 (electronic) and v (vibration)"""
    from renormalizer.model import basis as ba
    return {
        "one-site-per-dof": [ba.BasisSimpleElectron("e0"), ba.BasisSimpleElectron("e1"), ba.BasisSHO("v", 1.1, 3)],
        "multi-electron-site": [ba.BasisMultiElectron(["e0", "e1"], [1, 1]), ba.BasisSHO("v", 1.1, 3)],
        "multi-electron-vac-site": [ba.BasisMultiElectronVac(["e0", "e1"]), ba.BasisSHO("v", 1.1, 3)],
        "vibration-first": [ba.BasisSHO("v", 1.1, 3), ba.BasisSimpleElectron("e1"), ba.BasisSimpleElectron("e0")],
    }


def regroup_terms():
    from renormalizer.model import Op
    return [Op(r"a^\dagger a", ["e0", "e1"], 0.559, [1, -1]), Op(r"a^\dagger a", ["e1", "e0"], 0.559, [1, -1]), Op(r"a^\dagger a", ["e0", "e0"], 0.3, [1, -1]),
            Op(r"a^\dagger a", ["e1", "e1"], -0.2, [1, -1]), Op(r"a^\dagger a x", ["e0", "e0", "v"], 0.25, [1, -1, 0]), Op("x^2", "v", 0.6), Op("p^2", "v", 0.5),
            # the identity spelled explicitly over several dofs, with a prefactor: a constant, and the identity factor of a product
            Op.identity(["e0", "e1"]) * 0.35, Op.identity(["e0", "e1"]) * Op("x", "v") * 0.45]
