"""tree helpers (filled in with the tree checks)"""


def run_c05_tree(desc, seed):
    return {"skipped": 1, "outcome": "tree-part-not-built-yet"}
