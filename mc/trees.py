"""Tree helpers shared by C02 / C05 (tree part) / C11 / C12 / C14."""
import itertools

import numpy as np

from mc import env  # noqa: F401
from mc.space import plane_trees


def distributions(m, N):
    """all ways to put m labelled items into N ordered lists (order inside a list matters):  N(N+1)...(N+m-1) of them.
    returned as tuple of N tuples"""
    def rec(i, lists):
        if i == m:
            yield tuple(tuple(l) for l in lists)
            return
        for k in range(N):
            for pos in range(len(lists[k]) + 1):
                new = [list(l) for l in lists]
                new[k].insert(pos, i)
                yield from rec(i + 1, new)
    yield from rec(0, [[] for _ in range(N)])


def build_basis_tree(parent, groups, basis_list):
    """parent: preorder parent vector; groups[i]: indices into basis_list for node i (empty -> dummy node)"""
    from renormalizer.tn import BasisTree, TreeNodeBasis
    from renormalizer.model.basis import BasisDummy
    qs = np.asarray(basis_list[0].sigmaqn).reshape(basis_list[0].nbas, -1).shape[1]
    nodes = []
    for i, g in enumerate(groups):
        if g:
            nodes.append(TreeNodeBasis([basis_list[j] for j in g]))
        elif qs == 1:
            nodes.append(TreeNodeBasis())
        else:
            # the default virtual basis carries a one-component label; with several components it has to be given explicitly
            nodes.append(TreeNodeBasis([BasisDummy(("Virtual DOF", i), sigmaqn=[[0] * qs])]))
    for i, p in enumerate(parent):
        if p >= 0:
            nodes[p].add_child(nodes[i])
    return BasisTree(nodes[0])


def permute_children(parent, perm_seed):
    """another plane tree with the same rooted-tree shape: children lists permuted (deterministically from perm_seed).
    returns (new_parent_vector, mapping old node -> new node)"""
    n = len(parent)
    children = {i: [j for j in range(n) if parent[j] == i] for i in range(n)}
    rs = np.random.RandomState(perm_seed)
    new_parent = []
    mapping = {}

    def walk(old, newpar):
        idx = len(new_parent)
        mapping[old] = idx
        new_parent.append(newpar)
        ch = list(children[old])
        if len(ch) > 1:
            ch = [ch[k] for k in rs.permutation(len(ch))]
            if ch == children[old]:
                ch = ch[::-1]
        for c in ch:
            walk(c, idx)
    walk(0, -1)
    return new_parent, mapping


def dense_state(ttns, order):
    """dense vector x coeff in the explicit order of (non-dummy) basis sets"""
    v = np.asarray(ttns.todense(order)).reshape(-1)
    return v * ttns.coeff


def tree_edges_bipartitions(parent, groups, nphys):
    """for every non-root node: the set of physical basis indices in its subtree"""
    n = len(parent)
    sub = {i: set(groups[i]) for i in range(n)}
    for i in range(n - 1, 0, -1):
        sub[parent[i]] |= sub[i]
    return {i: sorted(sub[i]) for i in range(1, n)}


def run_c05_tree(desc, seed):
    """C05, tree part: TTNS.compress with per-node limits on every plane tree"""
    from renormalizer.tn import TTNS
    from renormalizer.model import basis as ba
    from renormalizer.utils import CompressConfig, CompressCriteria
    parent = desc["parent"]
    N = len(parent)
    kind = desc["kind"]
    if kind == "qn":
        basis_list = [ba.BasisSimpleElectron(i) for i in range(N)]
        qntot = max(1, N // 2)
    else:
        basis_list = [ba.BasisHalfSpin(i) if i % 2 == 0 else ba.BasisSHO(i, 1.0, 3) for i in range(N)]
        qntot = 0
    groups = [(i,) for i in range(N)]
    viol = {}
    ncomp = 0
    truncated = False

    def add(sig, msg):
        if sig not in viol:
            viol[sig] = {"sig": sig, "msg": msg}

    def fresh():
        tree = build_basis_tree(parent, groups, basis_list)
        env.reseed(seed, ("c05tree", tuple(parent), kind))
        t = TTNS.random(tree, qntot, 12)
        t.coeff = 1
        return tree, t

    tree, base = fresh()
    order = list(basis_list)
    psi = dense_state(base, order)
    dims = [b.nbas for b in basis_list]
    norm = np.linalg.norm(psi)
    if norm == 0 or not np.all(np.isfinite(psi)):
        return {"skipped": 1, "outcome": "degenerate-random-state"}
    subs = tree_edges_bipartitions(parent, groups, N)
    spectra = {}
    T = psi.reshape(dims)
    for node, inside in subs.items():
        outside = [i for i in range(N) if i not in inside]
        M_ = np.transpose(T, inside + outside).reshape(int(np.prod([dims[i] for i in inside])), -1)
        spectra[node] = np.linalg.svd(M_, compute_uv=False)
    slack = 1e-9 * norm
    specs = []
    for M in (1, 2, 3):
        specs.append(("global", M, {i: M for i in range(1, N)}))
        specs.append(("temp-int", M, {i: M for i in range(1, N)}))
    for vec in itertools.product((1, 2, 3), repeat=N - 1):
        if len(set(vec)) == 1:
            continue
        specs.append(("max_dims", vec, {i + 1: vec[i] for i in range(N - 1)}))
        specs.append(("max_dims-above-constructor-value", vec, {i + 1: vec[i] for i in range(N - 1)}))
        specs.append(("temp-list", vec, {i + 1: vec[i] for i in range(N - 1)}))
    for thr in (0.5, 0.1, 1e-2):
        specs.append(("threshold", thr, None))
    for style, payload, limits in specs:
        tree, t = fresh()
        try:
            t.canonicalise()
            temp = None
            if style == "global":
                t.compress_config = CompressConfig(CompressCriteria.fixed, max_bonddim=payload)
            elif style == "temp-int":
                t.compress_config = CompressConfig(CompressCriteria.fixed, max_bonddim=64)
                temp = payload
            elif style in ("max_dims", "max_dims-above-constructor-value"):
                t.compress_config = CompressConfig(CompressCriteria.fixed, max_bonddim=64 if style == "max_dims" else 1)
                t.compress_config.max_dims = np.array([1] + list(payload) + [1])
            elif style == "temp-list":
                t.compress_config = CompressConfig(CompressCriteria.fixed, max_bonddim=64)
                temp = [1] + list(payload)
            else:
                t.compress_config = CompressConfig(CompressCriteria.threshold, threshold=payload)
            ncomp += 1
            r, s_array = t.compress(temp_m_trunc=temp, ret_s=True)
        except Exception as e:
            import sys
            import traceback
            tb = traceback.extract_tb(sys.exc_info()[2])
            lib = [f.name for f in tb if "/renormalizer/" in f.filename]
            add(f"C05:tree:exception:{type(e).__name__}:{lib[-1] if lib else '?'}:{style}", f"tree {parent} {kind} {style}={payload}: {e!r}")
            continue
        phi = dense_state(t, order)
        bd = list(t.bond_dims)
        mb = {i: bd[i] for i in range(1, N)}
        if limits is not None:
            for i in range(1, N):
                if mb[i] > limits[i]:
                    add(f"C05:tree:limit-exceeded:{style}", f"tree {parent} {kind} {style}={payload}: bond of node {i} has dimension {mb[i]} > {limits[i]}; bond dims {bd}")
        if np.linalg.norm(phi) > norm * (1 + 1e-9):
            add("C05:tree:norm-grew", f"tree {parent} {style}={payload}")
        dist = np.linalg.norm(psi - phi)
        lows = [np.sqrt(np.sum(spectra[i][mb[i]:] ** 2)) for i in range(1, N)]
        low, up = max(lows), np.sqrt(sum(x ** 2 for x in lows))
        if any(mb[i] < len(spectra[i]) and spectra[i][mb[i]] > 1e-12 * norm for i in range(1, N)):
            truncated = True
        if dist < low - slack:
            add("C05:tree:below-eckart-young", f"tree {parent} {kind} {style}={payload}: distance {dist} < {low}")
        if dist > up + slack:
            add(f"C05:tree:above-discarded-weight:{style}", f"tree {parent} {kind} {style}={payload}: distance {dist:.6e} > {up:.6e}; bond dims {bd}")
        if limits is not None:
            # the bound of the property is in terms of the REQUESTED limits
            up_req = np.sqrt(sum(np.sum(spectra[i][limits[i]:] ** 2) for i in range(1, N)))
            if dist > up_req + slack:
                add(f"C05:tree:over-truncated:{style}", f"tree {parent} {kind} {style}={payload}: distance {dist:.6e} > sqrt(summed discarded weights for the requested limits) {up_req:.6e}; bond dims {bd}")
        # singular values returned for the first compressed bond (root -> first child) are those of the original state
        first = 1
        got = np.sort(np.asarray(s_array[first]))[::-1]
        ref = spectra[first]
        k = max(len(got), len(ref))
        if not np.allclose(np.pad(got, (0, k - len(got))), np.pad(ref, (0, k - len(ref))), atol=1e-9 * norm):
            add("C05:tree:ret_s", f"tree {parent} {kind} {style}: singular values of the first bond {got} vs dense {ref}")
    return {"nontrivial": truncated, "counters": {"compressions": ncomp}, "outcome": f"tree:{'viol' if viol else 'ok'}",
            "viol": list(viol.values()), "sample": {"desc": desc, "edge_ranks": {str(k): int(np.sum(v > 1e-12 * norm)) for k, v in spectra.items()}}}


def clone_ttns(t):
    """harness-side copy of a TTNS (never the library's copy()): node tensors and labels are copied, the basis tree is shared"""
    from renormalizer.tn import TTNS, TreeNodeTensor
    nodes = [TreeNodeTensor(np.array(n.tensor, copy=True), np.array(n.qn, copy=True)) for n in t.node_list]
    idx = {id(n): i for i, n in enumerate(t.node_list)}
    for n, new in zip(t.node_list, nodes):
        for ch in n.children:
            new.add_child(nodes[idx[id(ch)]])
    out = TTNS(t.basis, root=nodes[0])
    out.coeff = t.coeff
    out.compress_config = t.compress_config.copy()
    out.evolve_config = t.evolve_config.copy()
    out.optimize_config = t.optimize_config.copy()
    return out
