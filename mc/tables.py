"""Term-table spaces shared by C01 / C02 / C20.

A *family* fixes an ordered list of local basis sets and, per site, a small symbol alphabet
    alphabet[site] = [None, (symbol, dofs), (symbol, dofs), ...]       (index 0 = identity: the term does not touch the site)
A *table* is a tuple of rows; a row is a tuple of alphabet indices, one per site.  A term is built from a row as the
`Op` product of the non-identity entries.  The dense reference of a term is the Kronecker product of the local
matrices of its entries (identity where the index is 0).
"""
import itertools

import numpy as np

from mc import env  # noqa: F401
from mc.ref.dense import kron_all


def make_basis(kind, dof):
    from renormalizer.model import basis as ba
    if kind in ("S", "Sy"):
        return ba.BasisHalfSpin(dof)
    if kind == "Bp":
        return ba.BasisSHO(dof, omega=1.1, nbas=3)
    if kind == "Sq":   # spin with one-component label
        return ba.BasisHalfSpin(dof, sigmaqn=[0, 1])
    if kind == "S2a":  # two-component labels, alpha
        return ba.BasisHalfSpin(dof, sigmaqn=[[0, 0], [1, 0]])
    if kind == "S2b":
        return ba.BasisHalfSpin(dof, sigmaqn=[[0, 0], [0, 1]])
    if kind == "B":
        return ba.BasisSHO(dof, omega=1.3, nbas=3)
    if kind == "B2":
        return ba.BasisSHO(dof, omega=0.7, nbas=2)
    if kind == "B1":
        return ba.BasisSHO(dof, omega=1.0, nbas=1)
    if kind == "Bx":
        return ba.BasisSHO(dof, omega=0.9, nbas=3, x0=0.7)
    if kind == "E":
        return ba.BasisSimpleElectron(dof)
    if kind == "V":
        return ba.BasisMultiElectronVac([(dof, 0), (dof, 1)])
    if kind == "Mu":
        return ba.BasisMultiElectron([(dof, 0), (dof, 1)], [0, 0])
    raise ValueError(kind)


def site_alphabet(kind, dof, s):
    """first s non-identity symbols of the kind's alphabet; entries (symbol, dofs, qn or None)"""
    if kind in ("S",):
        full = [("sigma_x", [dof], None), ("sigma_z", [dof], None), ("sigma_x sigma_z", [dof, dof], None),
                ("sigma_+", [dof], None)]
    elif kind == "Sy":
        full = [("sigma_y", [dof], None), ("sigma_x", [dof], None)]
    elif kind == "Bp":
        full = [("p", [dof], None), ("x", [dof], None)]
    elif kind == "Sq":
        # sigmaqn [0,1]: sigma_+ = |0><1| lowers the label, sigma_- raises it
        full = [("sigma_+", [dof], [-1]), ("sigma_-", [dof], [1]), ("sigma_z", [dof], [0]),
                ("sigma_- sigma_+", [dof, dof], [1, -1])]
    elif kind == "S2a":
        full = [("sigma_+", [dof], [[-1, 0]]), ("sigma_-", [dof], [[1, 0]]), ("sigma_z", [dof], [[0, 0]])]
    elif kind == "S2b":
        full = [("sigma_+", [dof], [[0, -1]]), ("sigma_-", [dof], [[0, 1]]), ("sigma_z", [dof], [[0, 0]])]
    elif kind in ("B", "B2", "Bx"):
        full = [("x", [dof], None), (r"b^\dagger b", [dof, dof], None), ("x^2", [dof], None), ("p^2", [dof], None)]
        if kind == "Bx":
            full = [("x", [dof], None), ("x^2", [dof], None), ("p^2", [dof], None)]
    elif kind == "B1":
        full = [("x", [dof], None), (r"b^\dagger b", [dof, dof], None)]
    elif kind == "E":
        full = [(r"a^\dagger a", [dof, dof], None), (r"a^\dagger", [dof], None), ("a", [dof], None)]
    elif kind == "V":
        d0, d1 = (dof, 0), (dof, 1)
        full = [(r"a^\dagger a", [d0, d1], None), (r"a^\dagger a", [d1, d1], None), (r"a^\dagger", [d0], None),
                ("a", [d1], None)]
    elif kind == "Mu":
        d0, d1 = (dof, 0), (dof, 1)
        full = [(r"a^\dagger a", [d0, d1], [0, 0]), (r"a^\dagger a", [d1, d1], [0, 0]), (r"a a^\dagger", [d0, d1], [0, 0])]
    else:
        raise ValueError(kind)
    return [None] + full[:s]


class Family:
    def __init__(self, kinds, s):
        self.kinds = list(kinds)
        self.n = len(kinds)
        self.basis = [make_basis(k, i) for i, k in enumerate(kinds)]
        self.alphabet = [site_alphabet(k, i, s) for i, k in enumerate(kinds)]
        self.dims = [b.nbas for b in self.basis]
        self._local = {}

    def model(self):
        from renormalizer.model import Model
        return Model(list(self.basis), [])

    def sizes(self):
        return [len(a) for a in self.alphabet]

    def rows(self):
        """all rows incl. the all-identity row"""
        return list(itertools.product(*[range(len(a)) for a in self.alphabet]))

    def op_of_entry(self, isite, idx):
        from renormalizer.model import Op
        sym, dofs, qn = self.alphabet[isite][idx]
        return Op(sym, list(dofs), 1.0, qn)

    def term(self, row, factor, reverse=False):
        """Op of one row. reverse=True lists the factors in descending site order (intra-site order kept)."""
        from renormalizer.model import Op
        ops = [self.op_of_entry(i, idx) for i, idx in enumerate(row) if idx != 0]
        if not ops:
            # the all-identity term: identity on site 0
            b0 = self.basis[0]
            op = Op.identity(b0.dofs[0], qn_size=b0.sigmaqn.shape[1])
            return Op(op.symbol, op.dofs, factor, op.qn_list)
        if reverse:
            ops = ops[::-1]
        p = Op.product(ops)
        return Op(p.symbol, p.dofs, factor, p.qn_list)

    def local_matrix(self, isite, idx):
        key = (isite, idx)
        if key not in self._local:
            if idx == 0:
                m = np.eye(self.dims[isite])
            else:
                m = np.asarray(self.basis[isite].op_mat(self.op_of_entry(isite, idx)))
            self._local[key] = m
        return self._local[key]

    def dense_row(self, row, order=None):
        mats = [self.local_matrix(i, idx) for i, idx in enumerate(row)]
        if order is not None:
            mats = [mats[i] for i in order]
        return kron_all(mats)

    def dense(self, table, factors, offset=0.0, order=None):
        D = int(np.prod(self.dims))
        out = np.zeros((D, D), dtype=complex)
        for row, f in zip(table, factors):
            out = out + f * self.dense_row(row, order)
        out = out - offset * np.eye(D)
        return out

    def row_charge(self, row):
        q = 0
        for i, idx in enumerate(row):
            if idx:
                q = q + self.op_of_entry(i, idx).qn
        return tuple(np.atleast_1d(q).tolist()) if not isinstance(q, int) else (0,)


FACTORS_SMALL = [1.0, -1.0, 0.5]
FACTORS_WIDE = [1.0, -1.0, 0.5, 2.5e-3, 7e2]


def tables(fam: Family, kmax, ordered_upto=2):
    """all tables with 1..kmax rows: ordered tuples (duplicates allowed) for k<=ordered_upto, multisets beyond"""
    rows = fam.rows()
    for k in range(1, kmax + 1):
        if k <= ordered_upto:
            for t in itertools.product(rows, repeat=k):
                yield t
        else:
            for t in itertools.combinations_with_replacement(rows, k):
                yield t


def factor_assignments(k, full_upto=2):
    if k <= full_upto:
        return [list(f) for f in itertools.product(FACTORS_SMALL, repeat=k)]
    # rotating assignments from the wide alphabet: k rotations so that every row meets several magnitudes
    out = []
    for r in range(len(FACTORS_WIDE)):
        out.append([FACTORS_WIDE[(r + j) % len(FACTORS_WIDE)] for j in range(k)])
    return out
