"""Small chain models, operators and seeded states for the register-machine checks (C03/C04/C06/C13/C14)."""
import numpy as np

from mc import env  # noqa: F401


def basis_list(family, n):
    from renormalizer.model import basis as ba
    if family == "elec":
        return [ba.BasisSimpleElectron(i) for i in range(n)]
    if family == "eph":
        return [ba.BasisSimpleElectron(i) if i % 2 == 0 else ba.BasisSHO(i, omega=1.1, nbas=2) for i in range(n)]
    if family == "spin":
        return [ba.BasisHalfSpin(i) for i in range(n)]
    if family == "two":
        return [ba.BasisHalfSpin(i, sigmaqn=[[0, 0], [1, 0]] if i % 2 == 0 else [[0, 0], [0, 1]]) for i in range(n)]
    if family == "mixed":  # electron, boson(3), multi-electron-with-vacuum
        out = []
        for i in range(n):
            if i % 3 == 0:
                out.append(ba.BasisSimpleElectron(i))
            elif i % 3 == 1:
                out.append(ba.BasisSHO(i, omega=0.8, nbas=3))
            else:
                out.append(ba.BasisMultiElectronVac([(i, 0), (i, 1)]))
        return out
    raise ValueError(family)


def charged_sites(family, n):
    if family in ("elec",):
        return list(range(n))
    if family == "eph":
        return [i for i in range(n) if i % 2 == 0]
    if family == "mixed":
        return [i for i in range(n) if i % 3 != 1]
    return []


def sectors(family, n):
    """every sector that contains at least one basis state"""
    if family in ("elec", "eph", "mixed"):
        return [[k] for k in range(len(charged_sites(family, n)) + 1)]
    if family == "spin":
        return [[0]]
    if family == "two":
        na = len([i for i in range(n) if i % 2 == 0])
        nb = n - na
        return [[a, b] for a in range(na + 1) for b in range(nb + 1)]
    raise ValueError(family)


def neutral_terms(family, n, rs):
    """terms of a charge-neutral (sector conserving) operator with generic coefficients"""
    from renormalizer.model import Op
    t = []
    c = lambda: float(np.round(rs.uniform(0.3, 1.2), 3))  # noqa: E731
    if family == "elec":
        for i in range(n):
            t.append(Op(r"a^\dagger a", i, c()))
        for i in range(n - 1):
            v = c()
            t.append(Op(r"a^\dagger a", [i, i + 1], v))
            t.append(Op(r"a^\dagger a", [i + 1, i], v))
        if n >= 3:
            v = c()
            t.append(Op(r"a^\dagger a", [0, n - 1], v))
            t.append(Op(r"a^\dagger a", [n - 1, 0], v))
    elif family == "eph":
        es = charged_sites(family, n)
        for i in es:
            t.append(Op(r"a^\dagger a", i, c()))
        for i, j in zip(es[:-1], es[1:]):
            v = c()
            t.append(Op(r"a^\dagger a", [i, j], v))
            t.append(Op(r"a^\dagger a", [j, i], v))
        for i in range(n):
            if i % 2 == 1:
                t.append(Op(r"b^\dagger b", i, c()))
                t.append(Op(r"a^\dagger a", i - 1) * Op("x", i) * c())
    elif family == "mixed":
        for i in range(n):
            if i % 3 == 0:
                t.append(Op(r"a^\dagger a", i, c()))
            elif i % 3 == 1:
                t.append(Op(r"b^\dagger b", i, c()))
                t.append(Op(r"a^\dagger a", i - 1) * Op("x", i) * c())
            else:
                t.append(Op(r"a^\dagger a", [(i, 0), (i, 1)], c()))
                t.append(Op(r"a^\dagger a", [(i, 1), (i, 0)], c()))
                t.append(Op(r"a^\dagger a", [(i, 1), (i, 1)], c()))
                v = c()
                t.append(Op(r"a^\dagger a", [i - 2, (i, 0)], v))
                t.append(Op(r"a^\dagger a", [(i, 0), i - 2], v))
    elif family == "spin":
        for i in range(n):
            t.append(Op("sigma_x", i, c()))
            t.append(Op("sigma_z", i, c()))
        for i in range(n - 1):
            t.append(Op("sigma_z sigma_z", [i, i + 1], c()))
            v = c()
            t.append(Op("sigma_+ sigma_-", [i, i + 1], v))
            t.append(Op("sigma_- sigma_+", [i, i + 1], v))      # hermitian conjugate: the operator is a Hamiltonian
    elif family == "two":
        def qn(i, s):
            return [s, 0] if i % 2 == 0 else [0, s]
        for i in range(n):
            t.append(Op("sigma_- sigma_+", [i, i], c(), qn=[qn(i, 1), qn(i, -1)]))
        for i in range(n - 2):
            v = c()
            t.append(Op("sigma_- sigma_+", [i, i + 2], v, qn=[qn(i, 1), qn(i + 2, -1)]))
            t.append(Op("sigma_- sigma_+", [i + 2, i], v, qn=[qn(i + 2, 1), qn(i, -1)]))
        for i in range(n - 1):
            t.append(Op("sigma_z sigma_z", [i, i + 1], c(), qn=[[0, 0], [0, 0]]))
    return t


def raising_terms(family, n, rs):
    """terms of an operator that raises the (first component of the) quantum number by one; None if not available"""
    from renormalizer.model import Op
    c = lambda: float(np.round(rs.uniform(0.3, 1.2), 3))  # noqa: E731
    if family in ("elec", "eph"):
        return [Op(r"a^\dagger", i, c()) for i in charged_sites(family, n)]
    if family == "mixed":
        out = []
        for i in range(n):
            if i % 3 == 0:
                out.append(Op(r"a^\dagger", i, c()))
            elif i % 3 == 2:
                out.append(Op(r"a^\dagger", (i, 1), c()))
        return out
    if family == "two":
        return [Op("sigma_-", i, c(), qn=[[1, 0]]) for i in range(n) if i % 2 == 0]
    return None


def raising_charge(family):
    return [1, 0] if family == "two" else [1]


class Chain:
    def __init__(self, family, n, seed):
        from renormalizer.model import Model
        self.family = family
        self.n = n
        self.seed = seed
        self.basis = basis_list(family, n)
        self.dims = [b.nbas for b in self.basis]
        self.rs = env.rng(seed, ("chain", family, n))
        self.h_terms = neutral_terms(family, n, self.rs)
        self.r_terms = raising_terms(family, n, self.rs)
        self.model = Model(list(self.basis), self.h_terms)
        self.qn_size = self.model.qn_size

    def new_model(self):
        from renormalizer.model import Model
        return Model(list(self.basis), self.h_terms)

    def mpo_neutral(self, algo="qr"):
        from renormalizer.mps import Mpo
        return Mpo(self.new_model(), self.h_terms, algo=algo)

    def mpo_raising(self, algo="qr"):
        from renormalizer.mps import Mpo
        if not self.r_terms:
            return None
        return Mpo(self.new_model(), self.r_terms, algo=algo)

    def sigmaqn(self):
        return [np.asarray(b.sigmaqn) for b in self.basis]

    def sector_mask(self, qntot):
        return sector_projector(self.sigmaqn(), qntot)

    def random_mps(self, qntot, m, tag, cplx=False):
        """seeded random state in a sector.  Built with Mps.random (left-canonical, centre at the last site)."""
        from renormalizer.mps import Mps
        mps = None
        for mm in (m, 2 * m, 4 * m, 64):
            # Mps.random can select only sector-incompatible blocks when m is small (it then divides by a zero norm and
            # raises): retry with a larger m -- noted in DESIGN.md, not claimed under any property
            env.reseed(self.seed, ("mps", self.family, self.n, tuple(qntot), m, tag))
            try:
                mps = Mps.random(self.new_model(), np.array(qntot), mm, percent=1.0)
                if np.all(np.isfinite(mps.todense())):
                    break
            except FloatingPointError:
                mps = None
        if mps is None:
            raise RuntimeError("could not build a random state")
        if cplx:
            # genuinely complex amplitudes without using library arithmetic: a phase per (site, physical index)
            # keeps the block structure (labels depend on the physical index only through sigmaqn)
            rs = env.rng(self.seed, ("phase", self.family, self.n, tuple(qntot), tag))
            mps = mps.to_complex()
            for i in range(self.n):
                ph = np.exp(1j * rs.uniform(0, 2 * np.pi, size=self.dims[i]))
                mps[i] = np.asarray(mps[i].array) * ph[None, :, None]
        return mps

    def product_mps(self, occ_sites):
        """Hartree product state with the given charged sites occupied"""
        from renormalizer.mps import Mps
        cond = {}
        for i in occ_sites:
            b = self.basis[i]
            cond[b.dofs[0]] = 1
        return Mps.hartree_product_state(self.new_model(), cond)


from mc.ref.dense import sector_projector  # noqa: E402
