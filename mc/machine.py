"""Register machine over real Renormalizer chain objects with a dense shadow in lock-step  (E2 of DESIGN.md).

State      = dict name -> live library object (Mps / Mpo / MpDm), plus shadow dict name -> dense ndarray that the object
             must represent (vector * coeff for states, matrix for operators, matrix * coeff for density operators).
Transition = one real method call together with the corresponding dense operation on the shadow.
After every transition every invariant is evaluated on every register.

Two exploration modes (both exhaustive within their bound):
  * depth-bounded DFS over all action sequences (branching by python deepcopy -- the library's own copy() is never used
    by the harness, it is itself an action under test),
  * BFS over abstract gauge states to a fixpoint.
"""
import copy
import itertools
import sys
import traceback

import numpy as np

from mc import env  # noqa: F401
from mc.ref.dense import close, rel_err, kron_all, sector_projector

TOL = 1e-9


class Disabled(Exception):
    """the library refused the call with one of its own explicit precondition checks"""


# --------------------------------------------------------------------------------------------- observers

def kind_of(obj):
    if getattr(obj, "is_mpdm", False):
        return "mpdm"
    if getattr(obj, "is_mpo", False):
        return "mpo"
    return "mps"


def dense_of(obj, with_coeff=True):
    d = np.asarray(obj.todense())
    if with_coeff and kind_of(obj) != "mpo":
        d = d * obj.coeff
    return d


def raw(obj, i):
    return np.asarray(obj[i].array)


def left_iso_dev(t):
    m = t.reshape(-1, t.shape[-1])
    return float(np.abs(m.conj().T @ m - np.eye(m.shape[1])).max())


def right_iso_dev(t):
    m = t.reshape(t.shape[0], -1)
    return float(np.abs(m @ m.conj().T - np.eye(m.shape[0])).max())


def sigmaqn_of(obj, i):
    """local quantum-number labels of the physical index/indices, written from the basis (not via obj._get_sigmaqn)"""
    sq = np.asarray(obj.model.basis[i].sigmaqn)
    k = kind_of(obj)
    if k == "mps":
        return sq                                # (d, q)
    if k == "mpo":
        return sq[:, None, :] - sq[None, :, :]   # (up, down, q)
    return sq[:, None, :] + 0 * sq[None, :, :]   # mpdm: up only


def label_violation(obj, atol=1e-10):
    """largest |entry| of any site tensor at a position the stored labels forbid (relative to the tensor's max)."""
    if obj.qn is None:
        return 0.0, None
    n = obj.site_num
    c = obj.qnidx
    qntot = np.asarray(obj.qntot).reshape(-1)
    worst = (0.0, None)
    for s in range(n):
        t = raw(obj, s)
        ql = np.asarray(obj.qn[s]).reshape(t.shape[0], -1)
        qr = np.asarray(obj.qn[s + 1]).reshape(t.shape[-1], -1)
        sg = sigmaqn_of(obj, s)
        if t.ndim == 3:
            L = ql[:, None, None, :]
            S = sg[None, :, None, :]
            R = qr[None, None, :, :]
        else:
            L = ql[:, None, None, None, :]
            S = sg[None, :, :, None, :]
            R = qr[None, None, None, :, :]
        if s < c:
            ok = np.all(L + S == R, axis=-1)
        elif s > c:
            ok = np.all(S + R == L, axis=-1)
        else:
            ok = np.all(L + S + R == qntot, axis=-1)
        ok = np.broadcast_to(ok, t.shape)
        bad = np.abs(t[~ok])
        if bad.size:
            scale = max(np.abs(t).max(), 1e-300)
            v = float(bad.max() / scale)
            if v > worst[0]:
                worst = (v, s)
    return worst


def boundary_labels_ok(obj):
    if obj.qn is None:
        return True
    return len(obj.qn) == obj.site_num + 1 and len(obj.qn[0]) == 1 and len(obj.qn[-1]) == 1 and \
        all(len(obj.qn[i]) == obj.bond_dims[i] for i in range(obj.site_num + 1))


def abstract_key(obj):
    """gauge abstraction: everything the library's gauge code branches on, numeric entries dropped"""
    n = obj.site_num
    # the library branches on exactly two chain-level predicates (check_left_canonical: sites 0..n-2 left isometries,
    # check_right_canonical: sites 1..n-1 right isometries); they are recomputed here from the raw tensors
    lc = all(left_iso_dev(raw(obj, i)) < 1e-8 for i in range(n - 1))
    rc = all(right_iso_dev(raw(obj, i)) < 1e-8 for i in range(1, n))
    flags = (lc, rc)
    c = getattr(obj, "coeff", 1)
    cc = "1" if c == 1 else ("re" if abs(np.imag(c)) == 0 else "cx")
    return (kind_of(obj), "c" if obj.is_complex else "r", obj.qnidx, obj.to_right, flags, tuple(obj.bond_dims), cc,
            tuple(np.asarray(obj.qntot).reshape(-1).tolist()))


# --------------------------------------------------------------------------------------------- state

class State:
    __slots__ = ("regs", "sh", "trace", "aux")

    def __init__(self):
        self.regs = {}
        self.sh = {}
        self.trace = []
        self.aux = {}     # harness bookkeeping that is part of the (abstract) state

    def clone(self):
        s = State()
        # python deepcopy of the live objects; objects that no action of the chain machines mutates (the Model with its
        # basis/terms and the symbolic bookkeeping of operators) are shared between branches through the memo
        memo = {}
        for obj in self.regs.values():
            for attr in ("model", "symbolic_out_ops_list", "primary_ops", "symbolic_mpo"):
                x = getattr(obj, attr, None)
                if x is not None:
                    memo[id(x)] = x
        s.regs = copy.deepcopy(self.regs, memo)
        s.sh = {k: v.copy() for k, v in self.sh.items()}
        s.trace = list(self.trace)
        s.aux = dict(self.aux)
        return s

    def key(self):
        return tuple((k, abstract_key(v)) for k, v in sorted(self.regs.items())) + tuple(sorted(self.aux.items(), key=repr))


def call(fn, *a, **k):
    """call a library method; an AssertionError raised directly in the called method's own frame (its documented
    precondition asserts: centre at the chain end for canonicalise/compress, canonical input for compress, equal sectors
    and lengths for add) disables the transition; anything else propagates."""
    try:
        return fn(*a, **k)
    except AssertionError:
        tb = sys.exc_info()[2]
        frames = traceback.extract_tb(tb)
        lib = [f for f in frames if "/renormalizer/" in f.filename]
        names = [f.name for f in lib if f.name not in WRAPPER_FUNCS]
        # the assert sits in the called public method itself (possibly reached through super()), not in a helper below it
        if names and all(nm in PRECONDITION_FUNCS for nm in names):
            raise Disabled(lib[-1].name + ":" + (lib[-1].line or ""))
        raise


PRECONDITION_FUNCS = {"canonicalise", "compress", "add", "apply", "variational_compress", "contract"}
WRAPPER_FUNCS = {"__sub__", "__add__", "__matmul__"}


class Action:
    """name; targets; fn(state) mutates state (regs+shadow), may return a list of violation dicts for scalar results"""

    def __init__(self, name, fn):
        self.name = name
        self.fn = fn

    def __repr__(self):
        return self.name


# --------------------------------------------------------------------------------------------- invariants

def inv_dense(state, tol=TOL):
    out = []
    for name, obj in state.regs.items():
        d = dense_of(obj)
        ref = state.sh[name]
        if not close(d, ref, tol):
            out.append(("dense", name, f"register {name} ({kind_of(obj)}): represented object differs from dense shadow, rel err {rel_err(d, ref):.3e}"))
    return out


def inv_labels(state, atol=1e-10):
    out = []
    for name, obj in state.regs.items():
        if not boundary_labels_ok(obj):
            out.append(("label-shape", name, f"register {name}: label list does not match bond dims {obj.bond_dims} / {[len(q) for q in obj.qn]}"))
            continue
        v, s = label_violation(obj)
        if v > atol:
            out.append(("label", name, f"register {name} ({kind_of(obj)}), site {s}, qnidx {obj.qnidx}: entry of relative size {v:.2e} at a position the stored labels forbid"))
    return out


def make_inv_sector(sectors_of):
    """sectors_of(name, obj) -> boolean mask over the dense basis of allowed amplitudes (or None to skip)"""
    def inv(state, atol=1e-10):
        out = []
        for name, obj in state.regs.items():
            mask = sectors_of(name, obj)
            if mask is None:
                continue
            d = dense_of(obj)
            nrm = np.linalg.norm(d)
            if nrm == 0:
                continue
            outside = np.linalg.norm(d[~mask]) if d.ndim == 1 else np.linalg.norm(d[~mask, :])
            if outside > atol * nrm:
                out.append(("sector", name, f"register {name}: relative weight {outside / nrm:.2e} outside the sector qntot={np.asarray(obj.qntot).tolist()}"))
        return out
    return inv


# --------------------------------------------------------------------------------------------- exploration

def step(state, action, invariants):
    """apply one action to a (cloned) state; returns (status, violations) with status in ok/disabled/exception"""
    try:
        extra = action.fn(state) or []
    except Disabled as e:
        return "disabled", []
    except Exception as e:
        tb = traceback.extract_tb(sys.exc_info()[2])
        lib = [f for f in tb if "/renormalizer/" in f.filename]
        where = f"{lib[-1].name}" if lib else "harness"
        return "exception", [("exception:" + type(e).__name__ + ":" + where, action.name,
                              f"{action.name} raised {e!r} (innermost library frame: {where})")]
    state.trace.append(action.name)
    for name, ref in state.sh.items():
        if not np.any(ref) or np.linalg.norm(ref) < state.aux.get("zero_floor", 1e-13):
            # an exactly/numerically zero object is outside every quantifier ("normalisable states"): prune
            return "disabled", []
    viol = list(extra)
    for inv in invariants:
        try:
            viol.extend(inv(state))
        except Exception as e:
            viol.append(("exception-in-observer:" + type(e).__name__, action.name, f"observer raised {e!r} after {action.name}"))
    return "ok", viol


def explore_depth(init_state, actions, invariants, depth, first=None, stats=None):
    """all action sequences of length <= depth starting from init_state (optionally with a fixed first action).
    yields (trace, kind, regname, msg) for every violation; stops descending below a violating state."""
    if stats is None:
        stats = {}
    stats.setdefault("transitions", 0)
    stats.setdefault("disabled", 0)
    stats.setdefault("states", set())
    stack = [(init_state, 0)]
    while stack:
        st, d = stack.pop()
        stats["states"].add(st.key())
        if d >= depth:
            continue
        acts = actions if not (d == 0 and first is not None) else [a for a in actions if a.name == first]
        for a in acts:
            child = st.clone()
            status, viol = step(child, a, invariants)
            if status == "disabled":
                stats["disabled"] += 1
                continue
            stats["transitions"] += 1
            if viol:
                for v in viol:
                    yield (st.trace + [a.name], v[0], v[1], v[2])
                continue
            stack.append((child, d + 1))


def explore_bfs(init_state, actions, invariants, max_states=20000, stats=None, nreps=2):
    """BFS over abstract states to a fixpoint; yields violations like explore_depth"""
    if stats is None:
        stats = {}
    stats.setdefault("transitions", 0)
    stats.setdefault("disabled", 0)
    seen = {init_state.key()}
    stats["states"] = seen
    stats["fixpoint"] = False
    stats["nondeterministic_abstract_successors"] = 0
    succ = {}
    reps = {init_state.key(): 1}
    frontier = [init_state]
    depth = 0
    while frontier:
        nxt = []
        for st in frontier:
            for a in actions:
                child = st.clone()
                status, viol = step(child, a, invariants)
                if status == "disabled":
                    stats["disabled"] += 1
                    continue
                stats["transitions"] += 1
                if viol:
                    for v in viol:
                        yield (st.trace + [a.name], v[0], v[1], v[2])
                    continue
                k = child.key()
                sk = (st.key(), a.name)
                conflict = sk in succ and succ[sk] != k
                if conflict:
                    # the abstraction merged two concrete states with different futures: count it, and expand this concrete
                    # successor as well (below) even if its abstract state already has its representatives, so that the
                    # divergent future is explored rather than lost (bounded, so that the search still terminates)
                    stats["nondeterministic_abstract_successors"] += 1
                    stats.setdefault("conflict_examples", []).append((st.trace + [a.name], succ[sk], k))
                succ[sk] = k
                if k not in seen:
                    if len(seen) >= max_states:
                        stats["capped"] = True
                        continue
                    seen.add(k)
                    reps[k] = 1
                    nxt.append(child)
                elif reps.get(k, 0) < nreps or (conflict and stats["nondeterministic_abstract_successors"] <= 200):
                    # a second concrete representative of the same abstract state is expanded too: this is what
                    # measures whether the abstraction merges states with different futures
                    reps[k] = reps.get(k, 0) + 1
                    nxt.append(child)
        frontier = nxt
        depth += 1
    stats["fixpoint"] = not stats.get("capped", False)
    stats["bfs_depth"] = depth
