"""Runner: `python -m mc.run <Cxx> [--tier quick|thorough] [--replay FILE] [--only SUBSTR] [--jobs N]`

A check module (checks/cXX_*.py) exposes
    ID, LEVEL ("exploration" | "model_checking" | "fault_enumeration"), RULE, ASSUMPTIONS, BOUND(tier)->dict
    cases(tier, seed) -> iterable of JSON-able case descriptors (the finite space, simplest first)
    run_case(desc, seed) -> dict with optional keys
        nontrivial: bool            -- non-trivial by the module's RULE
        dkey: str                   -- key for distinctness (default: canonical JSON of desc)
        outcome: str                -- short summary of what was observed (distinct outcomes are counted)
        viol: [ {sig, msg} ]        -- violations; `sig` is the call-site + input-class signature
        rejected / skipped: int     -- library refused the input explicitly / harness skipped (threshold-adjacent)
        states / transitions: int   -- for explicit-state searches
        counters: {name: int}       -- summed into coverage
        sample: any                 -- written to coverage.samples (first few)
The runner shards the cases over long-lived forked workers, aggregates, adjudicates violations against
/verif/known_findings.json, re-executes every unlisted violation in a fresh process (determinism), writes the
replay artefact and the evidence file, and prints VIOLATION / KNOWN-FINDING lines.
"""
import argparse
import hashlib
import importlib
import json
import multiprocessing as mp
import os
import signal
import subprocess
import sys
import time
import traceback

from mc import env

ROOT = os.path.dirname(os.path.dirname(os.path.abspath(__file__)))
EVIDENCE_DIR = os.path.join(ROOT, "evidence")
REPLAY_DIR = os.path.join(ROOT, "replays")
KNOWN_FILE = os.path.join(ROOT, "known_findings.json")

CHECK_MODULES = {}


def _discover():
    d = os.path.join(ROOT, "checks")
    for fn in sorted(os.listdir(d)):
        if fn.startswith("c") and fn.endswith(".py") and fn[1:3].isdigit():
            CHECK_MODULES["C" + fn[1:3]] = "checks." + fn[:-3]


_discover()


class Horizon(BaseException):
    """raised by the per-case alarm; BaseException so that no `except Exception` in the library eats it"""


def _alarm(signum, frame):
    raise Horizon()


_MOD = None
_SEED = 0


def _init_worker(modname, seed):
    global _MOD, _SEED
    _MOD = importlib.import_module(modname)
    _SEED = seed
    signal.signal(signal.SIGALRM, _alarm)


def canon(desc) -> str:
    return json.dumps(desc, sort_keys=True, separators=(",", ":"), default=str)


def execute_case(mod, desc, seed):
    """one execution of the real code on one descriptor, with a wall-clock horizon"""
    horizon = int(getattr(mod, "HORIZON_S", 300))
    env.reseed(seed, canon(desc))
    t0 = time.time()
    signal.alarm(horizon)
    try:
        res = mod.run_case(desc, seed) or {}
    except Horizon:
        res = {"viol": [{"sig": f"{mod.ID}:horizon", "msg": f"case did not finish within {horizon}s (livelock horizon)"}]}
    except Exception as e:  # a crash of the harness or of the library outside the check's own try-blocks
        tb = traceback.format_exc(limit=8)
        res = {"viol": [{"sig": f"{mod.ID}:harness-exception:{type(e).__name__}", "msg": f"{e!r}\n{tb}"}]}
    finally:
        signal.alarm(0)
    res["wall"] = time.time() - t0
    return res


def _work(item):
    idx, desc = item
    res = execute_case(_MOD, desc, _SEED)
    return idx, res


def load_known():
    if not os.path.exists(KNOWN_FILE):
        return {}
    with open(KNOWN_FILE) as f:
        data = json.load(f)
    known = {}
    for e in data.get("findings", []):
        if e.get("status") == "known":
            known[e["key"]] = e
    return known


def replay_once_fresh(cid, desc, seed):
    """re-execute one descriptor in a fresh interpreter; returns sorted list of (sig,msg-head)"""
    cmd = [sys.executable, "-W", "ignore", "-m", "mc.run", cid, "--one", canon(desc)]
    e = dict(os.environ)
    e["VERIF_SEED"] = str(seed)
    p = subprocess.run(cmd, cwd=ROOT, env=e, capture_output=True, text=True, timeout=3600)
    for line in p.stdout.splitlines():
        if line.startswith("ONE-RESULT "):
            return json.loads(line[len("ONE-RESULT "):])
    return None


def sigs_of(res):
    return sorted({v["sig"] for v in res.get("viol", [])})


def main(argv=None):
    ap = argparse.ArgumentParser()
    ap.add_argument("cid")
    ap.add_argument("--tier", default=os.environ.get("VERIF_TIER", "quick"))
    ap.add_argument("--replay")
    ap.add_argument("--one", help="internal: run one descriptor (JSON) and print its result")
    ap.add_argument("--only", help="debug: only cases whose canonical JSON contains this substring")
    ap.add_argument("--jobs", type=int, default=int(os.environ.get("VERIF_JOBS", "0")) or min(16, os.cpu_count() or 1))
    ap.add_argument("--max", type=int, default=0, help="debug: stop after N cases (evidence marks exhaustive=false)")
    ap.add_argument("--no-evidence", action="store_true")
    args = ap.parse_args(argv)
    cid = args.cid.upper()
    seed = env.VERIF_SEED
    tier = args.tier if args.tier in ("quick", "thorough") else "quick"
    mod = importlib.import_module(CHECK_MODULES[cid])

    if args.one is not None:
        signal.signal(signal.SIGALRM, _alarm)
        res = execute_case(mod, json.loads(args.one), seed)
        print("ONE-RESULT " + json.dumps([[v["sig"], v["msg"][:300]] for v in res.get("viol", [])]))
        return 0

    if args.replay:
        with open(args.replay) as f:
            art = json.load(f)
        signal.signal(signal.SIGALRM, _alarm)
        res = execute_case(mod, art["case"], art.get("seed", seed))
        print(f"replay of {args.replay}: property={art['property']} expected sig={art['sig']}")
        print("case:", canon(art["case"]))
        for v in res.get("viol", []):
            print("  observed:", v["sig"], "--", v["msg"][:2000])
        if any(v["sig"] == art["sig"] for v in res.get("viol", [])):
            print(f"VIOLATION property={cid} replay={args.replay}")
            return 1
        print("not reproduced on this tree")
        return 0

    t0 = time.time()
    descs = list(mod.cases(tier, seed))
    total_space = len(descs)
    if args.only:
        descs = [d for d in descs if args.only in canon(d)]
    capped = False
    if args.max and len(descs) > args.max:
        descs = descs[: args.max]
        capped = True
    items = list(enumerate(descs))
    results = [None] * len(items)
    jobs = max(1, args.jobs)
    if jobs == 1 or len(items) <= 1:
        _init_worker(CHECK_MODULES[cid], seed)
        for it in items:
            i, r = _work(it)
            results[i] = r
    else:
        ctx = mp.get_context("fork")
        chunk = max(1, min(64, len(items) // (jobs * 8) or 1))
        if getattr(mod, "HEAVY_CASES", False):
            # cases of very different cost: hand them out one by one, most expensive kinds first (mod.COST hint)
            chunk = 1
            cost = getattr(mod, "COST", None)
            if cost is not None:
                items = sorted(items, key=lambda it: -cost(it[1]))
        with ctx.Pool(jobs, initializer=_init_worker, initargs=(CHECK_MODULES[cid], seed)) as pool:
            for i, r in pool.imap_unordered(_work, items, chunksize=chunk):
                results[i] = r

    # ---------------- aggregate
    known = load_known()
    # a case that is a block of elementary inputs (graphs, label patterns, crash executions) reports how many it ran
    evaluations = sum(int(res.get("eval_count", 1)) for res in results)
    dkeys_nontrivial = set()
    outcomes = {}
    rejected = skipped = states = transitions = 0
    counters = {}
    samples = []
    viol_by_sig = {}
    slowest = (0.0, None)
    nt_extra = 0
    for desc, res in zip(descs, results):
        if "nt_count" in res:
            # a case that is a block of distinct elementary inputs reports how many of them are non-trivial
            nt_extra += int(res["nt_count"])
        elif res.get("nontrivial"):
            dkeys_nontrivial.add(res.get("dkey") or canon(desc))
        oc = res.get("outcome")
        if oc is not None:
            outcomes[oc] = outcomes.get(oc, 0) + 1
        rejected += int(res.get("rejected", 0))
        skipped += int(res.get("skipped", 0))
        states += int(res.get("states", 0))
        transitions += int(res.get("transitions", 0))
        for k, v in (res.get("counters") or {}).items():
            counters[k] = counters.get(k, 0) + v
        if "sample" in res and len(samples) < 5 and (res.get("nontrivial") or len(samples) < 2):
            samples.append(res["sample"])
        for v in res.get("viol", []):
            viol_by_sig.setdefault(v["sig"], []).append((desc, v["msg"]))
        if res.get("wall", 0) > slowest[0]:
            slowest = (res["wall"], desc)
    if not samples:
        samples = [d for d in descs[:3]]

    known_hit = []
    new_viol = []
    harness_err = []
    for sig, lst in sorted(viol_by_sig.items()):
        if sig in known:
            known_hit.append((sig, len(lst), known[sig]))
            continue
        desc, msg = lst[0]
        # determinism: the same descriptor must fail the same way twice in a fresh process
        r1 = replay_once_fresh(cid, desc, seed)
        r2 = replay_once_fresh(cid, desc, seed)
        if r1 is None or r2 is None or r1 != r2 or sig not in [x[0] for x in r1]:
            harness_err.append((sig, desc, msg, r1, r2))
            continue
        os.makedirs(os.path.join(REPLAY_DIR, cid), exist_ok=True)
        sha = hashlib.sha256((sig + canon(desc)).encode()).hexdigest()[:12]
        path = os.path.join(REPLAY_DIR, cid, sha + ".json")
        with open(path, "w") as f:
            json.dump({"property": cid, "sig": sig, "seed": seed, "tier": tier, "case": desc, "msg": msg,
                       "n_cases_with_this_sig": len(lst),
                       "how_to_replay": f"bin/check {cid} --replay {path}"}, f, indent=1, default=str)
        new_viol.append((sig, desc, msg, path, len(lst)))

    wall = time.time() - t0
    level = mod.LEVEL
    coverage = {
        "evaluations": evaluations,
        "distinct_nontrivial": len(dkeys_nontrivial) + nt_extra,
        "rule": mod.RULE,
        "samples": samples,
        "exhaustive": (not capped) and (not args.only) and bool(getattr(mod, "EXHAUSTIVE", True)),
        "bound": mod.BOUND(tier) if hasattr(mod, "BOUND") else {},
        "space_size": total_space,
        "cases_run": len(results),
        "rejected_by_library": rejected,
        "skipped_threshold_adjacent": skipped,
        "distinct_outcomes": len(outcomes),
        "outcome_histogram_top": sorted(outcomes.items(), key=lambda kv: -kv[1])[:12],
        "known_findings_hit": [{"key": s, "cases": n} for s, n, _ in known_hit],
        "violations_unlisted": [{"sig": s, "cases": n, "replay": p} for s, _, _, p, n in new_viol],
        "slowest_case_s": round(slowest[0], 2), "slowest_case": slowest[1],
        "workers": jobs,
    }
    if counters:
        coverage["counters"] = counters
    if level == "model_checking" or states:
        coverage["states"] = states
        coverage["transitions"] = transitions
        # every transition IS one call of the real implementation with the shadow model run in lock-step
        coverage["traces_validated_against_impl"] = transitions
    evidence = {
        "property_id": cid,
        "tier": tier,
        "seed": seed,
        "level": level,
        "coverage": coverage,
        "assumptions": list(mod.ASSUMPTIONS),
        "wall_s": round(wall, 2),
        "violations": len(new_viol) + len(harness_err),
    }
    if not args.no_evidence and not args.only and not args.max:
        os.makedirs(EVIDENCE_DIR, exist_ok=True)
        with open(os.path.join(EVIDENCE_DIR, cid + ".json"), "w") as f:
            json.dump(evidence, f, indent=1, default=str)

    print(f"[{cid}] tier={tier} seed={seed} cases={evaluations} nontrivial={len(dkeys_nontrivial) + nt_extra} "
          f"outcomes={len(outcomes)} rejected={rejected} skipped={skipped} states={states} transitions={transitions} "
          f"wall={wall:.1f}s slowest={slowest[0]:.1f}s")
    if counters:
        print(f"[{cid}] counters: {json.dumps(counters, sort_keys=True)}")
    for sig, n, ent in known_hit:
        print(f"KNOWN-FINDING: property={cid} {ent.get('what', sig)} [key={sig}, cases={n}]")
    for sig, desc, msg, r1, r2 in harness_err:
        print(f"HARNESS-ERROR property={cid} sig={sig} not reproducible in a fresh process: {r1} / {r2}\n  case={canon(desc)}\n  msg={msg[:500]}")
    for sig, desc, msg, path, n in new_viol:
        print(f"  violation sig={sig} cases={n}\n    case={canon(desc)[:600]}\n    {msg[:1200]}")
        print(f"VIOLATION property={cid} replay={path}")
    if new_viol:
        return 1
    if harness_err:
        return 3
    return 0


if __name__ == "__main__":
    sys.exit(main())
