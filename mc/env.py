"""Process environment shared by every check.

Importing this module (before anything from renormalizer)
 * stubs the third-party module `print_tree` that renormalizer.tn imports but that is not installed,
 * silences the library's logging (the harness reads return values, never logs),
 * exposes `reseed(seed, case_id)` which owns the only nondeterminism source of the library
   (the global NumPy / Python generators, which renormalizer seeds at import time).
"""
import hashlib
import logging
import os
import random
import sys
import types
import warnings

os.environ.setdefault("OMP_NUM_THREADS", "1")
os.environ.setdefault("OPENBLAS_NUM_THREADS", "1")
os.environ.setdefault("MKL_NUM_THREADS", "1")

warnings.filterwarnings("ignore")

if "print_tree" not in sys.modules:
    _m = types.ModuleType("print_tree")

    class print_tree:  # noqa: N801  (name dictated by the missing package)
        def __init__(self, *a, **k):
            self.rows = []

        def get_children(self, node):
            return []

        def get_node_str(self, node):
            return ""

    _m.print_tree = print_tree
    sys.modules["print_tree"] = _m

REPO_DIR = os.environ.get("REPO_DIR", "/repo")
if REPO_DIR not in sys.path:
    sys.path.insert(0, REPO_DIR)

import numpy as np  # noqa: E402

logging.disable(logging.CRITICAL)


def stable_hash(*parts) -> int:
    h = hashlib.sha256(repr(parts).encode()).digest()
    return int.from_bytes(h[:4], "little")


def reseed(seed: int, case_id) -> None:
    s = stable_hash(seed, case_id)
    np.random.seed(s)
    random.seed(s)


def rng(seed: int, case_id) -> np.random.RandomState:
    """Private generator for the harness' own value choices (does not touch the global one)."""
    return np.random.RandomState(stable_hash("harness", seed, case_id))


VERIF_SEED = int(os.environ.get("VERIF_SEED", "0"))


# ---------------------------------------------------------------------------------------------------------------------------------
# Alias-preserving deep copies.  The explorers branch by `copy.deepcopy` of the whole set of live objects; what they look for after a
# branch point includes buffer sharing between objects (a "copy" that is a reference).  Two things defeat the standard deepcopy here:
#  * renormalizer's Matrix forwards unknown attributes to its ndarray, so deepcopy finds ndarray.__deepcopy__ through Matrix.__getattr__
#    and copies the array without consulting the memo: two Matrix objects wrapping the SAME ndarray come out with two arrays;
#  * ndarray views (a[...], a.T, a.real of a real array ...) are copied as independent arrays.
# The copiers below are registered for the exact classes, which copy.deepcopy consults before looking for __deepcopy__.
import copy as _copy  # noqa: E402


def _deepcopy_ndarray(a, memo):
    if a.dtype == object:
        return np.ndarray.__deepcopy__(a, memo)
    base = a.base
    if isinstance(base, np.ndarray) and type(base) is np.ndarray and base.dtype == a.dtype:
        nb = _copy.deepcopy(base, memo)          # memoised: every view of one buffer lands on one new buffer
        try:
            off = a.__array_interface__["data"][0] - base.__array_interface__["data"][0]
            if nb.strides == base.strides and off >= 0:
                v = np.ndarray(a.shape, dtype=a.dtype, buffer=nb, offset=off, strides=a.strides)
                return v
        except (TypeError, ValueError):
            pass
    return a.copy(order="K")


_copy._deepcopy_dispatch[np.ndarray] = _deepcopy_ndarray


def _install_matrix_copier():
    try:
        from renormalizer.mps.matrix import Matrix
    except Exception:       # the package under test may be broken in a way that prevents the import: checks report that themselves
        return

    def _deepcopy_matrix(m, memo):
        new = Matrix.__new__(Matrix)
        memo[id(m)] = new
        for k, v in m.__dict__.items():
            new.__dict__[k] = _copy.deepcopy(v, memo)
        return new

    _copy._deepcopy_dispatch[Matrix] = _deepcopy_matrix


_install_matrix_copier()
