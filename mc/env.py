"""Process environment shared by every check.

Importing this module (before anything from renormalizer)
 * stubs the third-party module `print_tree` that renormalizer.tn imports but that is not installed,
 * silences the library's logging (the harness reads return values, never logs),
 * exposes `reseed(seed, case_id)` which owns the only nondeterminism source of the library
   (the global NumPy / Python generators, which renormalizer seeds at import time).
"""
import hashlib
import logging
import os
import random
import sys
import types
import warnings

os.environ.setdefault("OMP_NUM_THREADS", "1")
os.environ.setdefault("OPENBLAS_NUM_THREADS", "1")
os.environ.setdefault("MKL_NUM_THREADS", "1")

warnings.filterwarnings("ignore")

if "print_tree" not in sys.modules:
    _m = types.ModuleType("print_tree")

    class print_tree:  # noqa: N801  (name dictated by the missing package)
        def __init__(self, *a, **k):
            self.rows = []

        def get_children(self, node):
            return []

        def get_node_str(self, node):
            return ""

    _m.print_tree = print_tree
    sys.modules["print_tree"] = _m

REPO_DIR = os.environ.get("REPO_DIR", "/repo")
if REPO_DIR not in sys.path:
    sys.path.insert(0, REPO_DIR)

import numpy as np  # noqa: E402

logging.disable(logging.CRITICAL)


def stable_hash(*parts) -> int:
    h = hashlib.sha256(repr(parts).encode()).digest()
    return int.from_bytes(h[:4], "little")


def reseed(seed: int, case_id) -> None:
    s = stable_hash(seed, case_id)
    np.random.seed(s)
    random.seed(s)


def rng(seed: int, case_id) -> np.random.RandomState:
    """Private generator for the harness' own value choices (does not touch the global one)."""
    return np.random.RandomState(stable_hash("harness", seed, case_id))


VERIF_SEED = int(os.environ.get("VERIF_SEED", "0"))
