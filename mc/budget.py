"""Make waiting visible: count right-hand-side / matvec evaluations inside the library's local integrators and stop a
driver that exceeds a budget (the adaptive / stiff loops of the evolution schemes never go quiescent by themselves)."""
import contextlib


class BudgetExceeded(Exception):
    pass


@contextlib.contextmanager
def rhs_budget(limit):
    import renormalizer.mps.mps as mm
    count = [0]
    orig_ivp, orig_kry = mm.solve_ivp, mm.expm_krylov

    def wrap_fun(fun):
        def f(*a, **k):
            count[0] += 1
            if count[0] > limit:
                raise BudgetExceeded(f"more than {limit} right-hand-side evaluations")
            return fun(*a, **k)
        return f

    def ivp(fun, *a, **k):
        return orig_ivp(wrap_fun(fun), *a, **k)

    def kry(fun, *a, **k):
        return orig_kry(wrap_fun(fun), *a, **k)

    mm.solve_ivp, mm.expm_krylov = ivp, kry
    try:
        yield count
    finally:
        mm.solve_ivp, mm.expm_krylov = orig_ivp, orig_kry
