"""E3: fault-injecting file-system shim for the result-dump protocol.

The modules that write files (`renormalizer.utils.tdmps`, `renormalizer.mps.mp`, `renormalizer.tn.tree`) reach the file
system through their module-level names `os` and `np`.  The injector replaces those names by proxies that
  * log every MUTATING step (makedirs / remove / rename / replace / savez) with its arguments,
  * can stop the process model *before* step k (nothing of step k happens) or *inside* a write (the target file is created
    and holds a prefix of the bytes the real np.savez would have produced: 0 bytes, half, all but the last 32, all bytes),
by raising `Crash`, a BaseException subclass that no `except Exception` in the library swallows.
Completed steps are durable; nothing is reordered (DESIGN.md section 8).
"""
import contextlib
import io
import os as real_os

import numpy as real_np


class Crash(BaseException):
    pass


TORN_VARIANTS = ["before", "empty", "half", "almost", "complete-then-crash"]


class Injector:
    def __init__(self, crash_at=None, variant="before"):
        self.crash_at = crash_at          # index of the mutating step at which to crash (None: never)
        self.variant = variant
        self.log = []                     # (op, args)
        self.count = 0

    def _step(self, op, *args):
        k = self.count
        self.count += 1
        self.log.append((op,) + tuple(real_os.path.basename(str(a)) for a in args))
        if self.crash_at is not None and k == self.crash_at:
            return True
        return False

    # ---- os proxy
    def os_proxy(self):
        inj = self

        class PathProxy:
            def __getattr__(self, name):
                return getattr(real_os.path, name)

        class OsProxy:
            path = real_os.path

            def __getattr__(self, name):
                return getattr(real_os, name)

            def remove(self, p):
                if inj._step("remove", p):
                    raise Crash(f"before remove({p})")
                return real_os.remove(p)

            def rename(self, a, b):
                if inj._step("rename", a, b):
                    raise Crash(f"before rename({a},{b})")
                return real_os.rename(a, b)

            def replace(self, a, b):
                if inj._step("replace", a, b):
                    raise Crash(f"before replace({a},{b})")
                return real_os.replace(a, b)

            def makedirs(self, p, exist_ok=False):
                # creating the directory is not a data-bearing step: it is logged but never a crash point of its own
                return real_os.makedirs(p, exist_ok=exist_ok)

        return OsProxy()

    # ---- numpy proxy
    def np_proxy(self):
        inj = self

        class NpProxy:
            def __getattr__(self, name):
                return getattr(real_np, name)

            def savez(self, file, *a, **k):
                path = str(file)
                if not path.endswith(".npz"):
                    path = path + ".npz"
                hit = inj._step("savez", path)
                if not hit:
                    return real_np.savez(file, *a, **k)
                if inj.variant == "before":
                    raise Crash(f"before savez({path})")
                buf = io.BytesIO()
                real_np.savez(buf, *a, **k)
                data = buf.getvalue()
                cut = {"empty": 0, "half": len(data) // 2, "almost": max(0, len(data) - 32), "complete-then-crash": len(data)}[inj.variant]
                with open(path, "wb") as f:
                    f.write(data[:cut])
                raise Crash(f"inside savez({path}) after {cut}/{len(data)} bytes")

        return NpProxy()


@contextlib.contextmanager
def injected(inj):
    import renormalizer.utils.tdmps as tdmps
    import renormalizer.mps.mp as mp
    saved = (tdmps.os, tdmps.np, mp.np)
    tdmps.os = inj.os_proxy()
    tdmps.np = inj.np_proxy()
    mp.np = inj.np_proxy()
    try:
        yield inj
    finally:
        tdmps.os, tdmps.np, mp.np = saved


def classify(path):
    """absent / torn / ('complete', content-id) where content-id is read from the file (key 'steps')"""
    if not real_os.path.exists(path):
        return ("absent",)
    try:
        with real_np.load(path, allow_pickle=True) as z:
            keys = list(z.keys())
            data = {k: z[k] for k in keys}          # forces reading every member completely
        return ("complete", data)
    except BaseException:
        return ("torn",)


def snapshot_dir(d):
    out = {}
    for fn in sorted(real_os.listdir(d)):
        with open(real_os.path.join(d, fn), "rb") as f:
            out[fn] = f.read()
    return out


def restore_dir(d, snap):
    real_os.makedirs(d, exist_ok=True)
    for fn in real_os.listdir(d):
        real_os.remove(real_os.path.join(d, fn))
    for fn, data in snap.items():
        with open(real_os.path.join(d, fn), "wb") as f:
            f.write(data)
