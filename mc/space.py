"""Finite spaces used by the checks.  Everything here is deterministic and enumerates completely."""
import itertools


def rooted_trees(n):
    """all unlabelled rooted trees with n vertices, as canonical nested tuples (children sorted)"""
    if n == 1:
        return [()]
    out = set()
    for part in partitions(n - 1):
        # choose a multiset of subtrees whose sizes are `part`
        pools = [rooted_trees(k) for k in part]
        for combo in itertools.product(*pools):
            out.add(tuple(sorted(combo)))
    return sorted(out)


def partitions(n, maxpart=None):
    """integer partitions of n as non-increasing tuples"""
    if maxpart is None:
        maxpart = n
    if n == 0:
        yield ()
        return
    for k in range(min(n, maxpart), 0, -1):
        for rest in partitions(n - k, k):
            yield (k,) + rest


def tree_order(t):
    return 1 + sum(tree_order(c) for c in t)


def tree_gamma(t):
    g = tree_order(t)
    for c in t:
        g *= tree_gamma(c)
    return g


def plane_trees(n):
    """all ordered rooted (plane) trees with n nodes, as parent vectors in preorder (parent[0] = -1).
    Catalan(n-1) of them: 1,1,2,5,14,42"""
    res = []

    def shapes(k):
        # nested-tuple ordered trees with k nodes
        if k == 1:
            return [()]
        out = []
        # compositions of k-1 into ordered children sizes
        for comp in compositions(k - 1):
            for combo in itertools.product(*[shapes(c) for c in comp]):
                out.append(tuple(combo))
        return out

    for s in shapes(n):
        parent = []

        def walk(node, par):
            idx = len(parent)
            parent.append(par)
            for ch in node:
                walk(ch, idx)

        walk(s, -1)
        res.append(parent)
    return res


def compositions(n):
    if n == 0:
        yield ()
        return
    for k in range(1, n + 1):
        for rest in compositions(n - k):
            yield (k,) + rest


def seqs_upto(alphabet, depth):
    """all sequences over alphabet of length 0..depth, shortest first"""
    for d in range(depth + 1):
        for s in itertools.product(alphabet, repeat=d):
            yield list(s)


def multisets(alphabet, k):
    return itertools.combinations_with_replacement(alphabet, k)
