"""Dense reference model: plain NumPy/SciPy linear algebra that knows nothing about tensor networks."""
import functools
import itertools

import numpy as np
import scipy.linalg


def kron_all(mats):
    out = np.eye(1)
    for m in mats:
        out = np.kron(out, m)
    return out


def rel_err(a, b, floor=1e-300):
    a = np.asarray(a)
    b = np.asarray(b)
    if a.shape != b.shape:
        return np.inf
    d = np.linalg.norm((a - b).ravel())
    s = max(np.linalg.norm(a.ravel()), np.linalg.norm(b.ravel()), floor)
    return float(d / s)


def close(a, b, tol=1e-9, floor=1e-12):
    """relative comparison  ||a-b|| <= tol * max(||a||,||b||,floor)"""
    a = np.asarray(a)
    b = np.asarray(b)
    if a.shape != b.shape:
        return False
    d = np.linalg.norm((a - b).ravel())
    s = max(np.linalg.norm(a.ravel()), np.linalg.norm(b.ravel()), floor)
    return bool(d <= tol * s)


# ---------------------------------------------------------------- local operators written independently of the library

def ladder(n):
    """annihilation operator b on n levels"""
    return np.diag(np.sqrt(np.arange(1, n)), k=1) if n > 1 else np.zeros((1, 1))


PAULI = {
    "I": np.eye(2),
    "X": np.array([[0, 1], [1, 0]], dtype=complex),
    "Y": np.array([[0, -1j], [1j, 0]], dtype=complex),
    "Z": np.array([[1, 0], [0, -1]], dtype=complex),
    "+": np.array([[0, 1], [0, 0]], dtype=complex),   # sigma_+ = |0><1|
    "-": np.array([[0, 0], [1, 0]], dtype=complex),   # sigma_- = |1><0|
}


def site_op(local, isite, dims):
    """embed a local matrix at site isite of a chain with local dimensions dims"""
    mats = [np.eye(d) for d in dims]
    mats[isite] = local
    return kron_all(mats)


def partial_trace_keep(psi, dims, keep):
    """rho = Tr_rest |psi><psi| ; rho[a,b] = sum_r psi[a,r] conj(psi[b,r]) ; keep = sorted list of sites"""
    n = len(dims)
    t = np.asarray(psi).reshape(dims)
    rest = [i for i in range(n) if i not in keep]
    t = np.transpose(t, list(keep) + rest)
    dk = int(np.prod([dims[i] for i in keep])) if keep else 1
    t = t.reshape(dk, -1)
    return t @ t.conj().T


def vn_entropy_dm(rho):
    w = np.linalg.eigvalsh((rho + rho.conj().T) / 2)
    w = w[w > 1e-14]
    return float(-(w * np.log(w)).sum())


def sector_projector(sigmaqn_list, qntot):
    """diagonal 0/1 vector over the product basis: 1 where the summed local quantum numbers equal qntot.
    sigmaqn_list: per site array (d_i, qn_size)"""
    qntot = np.atleast_1d(np.asarray(qntot))
    tot = np.zeros((1, len(qntot)), dtype=int)
    for sq in sigmaqn_list:
        sq = np.asarray(sq).reshape(len(sq), -1)
        tot = (tot[:, None, :] + sq[None, :, :]).reshape(-1, len(qntot))
    return np.all(tot == qntot[None, :], axis=1)


def expm_apply(H, t, v):
    return scipy.linalg.expm(-1j * t * H) @ v


def perm_matrix(dims, perm):
    """P such that (P psi)[new order] : tensor axes permuted so that new site k is old site perm[k]"""
    n = len(dims)
    D = int(np.prod(dims))
    idx = np.arange(D).reshape(dims).transpose(perm).ravel()
    P = np.zeros((D, D))
    P[np.arange(D), idx] = 1
    return P
