"""Brute-force reference for bipartite graphs given as a list of neighbour bitmasks (one int per U vertex)."""
from functools import lru_cache


def min_cover_size(masks):
    """min over S_U subset of U of |S_U| + |N(U minus S_U)| -- exact: a cover containing exactly S_U from U must contain
    every neighbour of the uncovered U vertices and nothing else is needed."""
    nU = len(masks)
    best = None
    for s in range(1 << nU):
        need = 0
        cnt = 0
        for u in range(nU):
            if (s >> u) & 1:
                cnt += 1
            else:
                need |= masks[u]
        tot = cnt + bin(need).count("1")
        if best is None or tot < best:
            best = tot
    return best if best is not None else 0


def max_matching_size(masks):
    """exact maximum matching by DP over U vertices and the set of used V vertices"""
    masks = tuple(masks)

    @lru_cache(maxsize=None)
    def f(u, used):
        if u == len(masks):
            return 0
        best = f(u + 1, used)
        m = masks[u] & ~used
        v = 0
        while m:
            if m & 1:
                r = 1 + f(u + 1, used | (1 << v))
                if r > best:
                    best = r
            m >>= 1
            v += 1
        return best

    return f(0, 0)


def masks_from_index(g, nU, nV):
    """graph number g in [0, 2^(nU*nV)): bit u*nV+v is edge (u,v)"""
    return [(g >> (u * nV)) & ((1 << nV) - 1) for u in range(nU)]


def adjacency(masks, nV):
    return [[v for v in range(nV) if (m >> v) & 1] for m in masks]
