"""Action alphabets of the chain register machine.

Registers:  a, b  states (Mps) -- initially in the same sector;  O neutral operator, P raising operator (may be absent),
            Q operator result register (initially absent), d density operator (MpDm, optional).
Every action mutates the live objects through ONE public library call and applies the dense counterpart to the shadow.
Scalar-valued calls are compared immediately and return violation tuples.
"""
import numpy as np

from mc.machine import Action, Disabled, call, dense_of, kind_of, close, rel_err

SCALARS = [2.0, -0.5, 1j]
BIG_M = 10 ** 6


def _scalar_ok(got, ref, tol=1e-8):
    # the library returns a python float when the imaginary part of a scalar is within numpy's isclose tolerance (1e-8, absolute) of zero:
    # an imaginary part of that size (single-precision scalar factors leave ~5e-9) is compared on the real part only
    if not isinstance(got, complex) and not np.iscomplexobj(got) and abs(np.imag(ref)) <= 1e-8:
        ref = np.real(ref)
    return abs(got - ref) <= tol * max(abs(ref), abs(got), 1e-6)


def lossless_config(obj):
    from renormalizer.utils import CompressConfig, CompressCriteria
    obj.compress_config = CompressConfig(CompressCriteria.fixed, max_bonddim=BIG_M)


def gauge_actions(n, targets=("a", "b"), with_complex=True, move_all=True):
    acts = []
    for t in targets:
        def can(st, t=t):
            call(st.regs[t].canonicalise)
        acts.append(Action(f"{t}.canonicalise()", can))

        def elc(st, t=t):
            r = st.regs[t].ensure_left_canonical()
            assert r is st.regs[t] or r is not None
        acts.append(Action(f"{t}.ensure_left_canonical()", elc))

        def erc(st, t=t):
            st.regs[t].ensure_right_canonical()
        acts.append(Action(f"{t}.ensure_right_canonical()", erc))

        def cmp_(st, t=t):
            lossless_config(st.regs[t])
            call(st.regs[t].compress)
        acts.append(Action(f"{t}.compress(lossless)", cmp_))
        js = range(n) if move_all else sorted({0, n // 2, n - 1})
        for j in js:
            def mq(st, t=t, j=j):
                st.regs[t].move_qnidx(j)
            acts.append(Action(f"{t}.move_qnidx({j})", mq))
        if with_complex:
            def cx(st, t=t):
                st.regs[t] = st.regs[t].to_complex()
                st.sh[t] = st.sh[t].astype(complex)
            acts.append(Action(f"{t}={t}.to_complex()", cx))
    return acts


def operator_gauge_actions(has_P=True):
    """gauge history of the operators themselves (an operator that has been canonicalised / compressed once carries its
    quantum-number centre at the other end)"""
    acts = []
    for t in (("O", "P") if has_P else ("O",)):
        def can(st, t=t):
            call(st.regs[t].canonicalise)
        acts.append(Action(f"{t}.canonicalise()", can))

        def cmp_(st, t=t):
            lossless_config(st.regs[t])
            call(st.regs[t].compress)
        acts.append(Action(f"{t}.compress(lossless)", cmp_))
    return acts


def arithmetic_actions(has_P=True, has_d=False, scalars=SCALARS):
    acts = []

    def add_ab(st):
        r = call(st.regs["a"].add, st.regs["b"])
        st.regs["a"], st.sh["a"] = r, st.sh["a"] + st.sh["b"]
    acts.append(Action("a=a.add(b)", add_ab))

    def add_ba(st):
        r = call(st.regs["b"].add, st.regs["a"])
        st.regs["a"], st.sh["a"] = r, st.sh["a"] + st.sh["b"]
    acts.append(Action("a=b.add(a)", add_ba))

    def sub_ab(st):
        if np.array_equal(st.sh["a"], st.sh["b"]):
            raise Disabled("zero result")
        r = call(lambda: st.regs["a"] - st.regs["b"])
        st.regs["a"], st.sh["a"] = r, st.sh["a"] - st.sh["b"]
    acts.append(Action("a=a-b", sub_ab))

    for c in scalars:
        def sc(st, c=c):
            st.regs["a"] = st.regs["a"].scale(c)
            st.sh["a"] = st.sh["a"] * c
        acts.append(Action(f"a=a.scale({c})", sc))

    # the same kind of factor handed over in other accepted numeric types (0-d array, e.g. the result of a full contraction; single precision)
    for tname, c in (("0-d array .6+.8j", np.array(0.6 + 0.8j)), ("np.complex64(.6-.8j)", np.complex64(0.6 - 0.8j))):
        def sct(st, c=c):
            st.regs["a"] = st.regs["a"].scale(c)
            st.sh["a"] = st.sh["a"] * complex(c)
        acts.append(Action(f"a=a.scale({tname})", sct))

    def sc_in(st):
        r = st.regs["b"].scale(-1.5, inplace=True)
        if r is not st.regs["b"]:
            return [("scale-inplace-identity", "b", "scale(inplace=True) did not return self")]
        st.sh["b"] = st.sh["b"] * -1.5
    acts.append(Action("b.scale(-1.5,inplace)", sc_in))

    def conj(st):
        st.regs["a"] = st.regs["a"].conj()
        st.sh["a"] = st.sh["a"].conj()
    acts.append(Action("a=a.conj()", conj))

    def conj_ba(st):
        # derive b from a and keep a alive
        st.regs["b"] = st.regs["a"].conj()
        st.sh["b"] = st.sh["a"].conj()
    acts.append(Action("b=a.conj()", conj_ba))

    def copy_ba(st):
        st.regs["b"] = st.regs["a"].copy()
        st.sh["b"] = st.sh["a"].copy()
    acts.append(Action("b=a.copy()", copy_ba))

    def coeff_a(st):
        st.regs["a"].coeff = st.regs["a"].coeff * 0.5
        st.sh["a"] = st.sh["a"] * 0.5
    acts.append(Action("a.coeff*=0.5", coeff_a))

    def coeff_b(st):
        st.regs["b"].coeff = st.regs["b"].coeff * (0.6 + 0.8j)
        st.sh["b"] = st.sh["b"] * (0.6 + 0.8j)
    acts.append(Action("b.coeff*=(0.6+0.8j)", coeff_b))

    def apply_O(st):
        st.regs["a"] = call(st.regs["O"].apply, st.regs["a"])
        st.sh["a"] = st.sh["O"] @ st.sh["a"]
    acts.append(Action("a=O.apply(a)", apply_O))

    def apply_O_can(st):
        st.regs["b"] = call(st.regs["O"].apply, st.regs["b"], canonicalise=True)
        st.sh["b"] = st.sh["O"] @ st.sh["b"]
    acts.append(Action("b=O.apply(b,canonicalise=True)", apply_O_can))

    def matmul_O(st):
        st.regs["a"] = st.regs["O"] @ st.regs["a"]
        st.sh["a"] = st.sh["O"] @ st.sh["a"]

    if has_P:
        def apply_P(st):
            st.regs["a"] = call(st.regs["P"].apply, st.regs["a"])
            st.sh["a"] = st.sh["P"] @ st.sh["a"]
        acts.append(Action("a=P.apply(a)", apply_P))

        def apply_P_b(st):
            st.regs["b"] = call(st.regs["P"].apply, st.regs["b"])
            st.sh["b"] = st.sh["P"] @ st.sh["b"]
        acts.append(Action("b=P.apply(b)", apply_P_b))

        def apply_P_ab(st):
            # derive b from a and keep a alive
            st.regs["b"] = call(st.regs["P"].apply, st.regs["a"])
            st.sh["b"] = st.sh["P"] @ st.sh["a"]
        acts.append(Action("b=P.apply(a)", apply_P_ab))

        def q_PO(st):
            st.regs["Q"] = call(st.regs["P"].apply, st.regs["O"])
            st.sh["Q"] = st.sh["P"] @ st.sh["O"]
        acts.append(Action("Q=P.apply(O)", q_PO))

        def q_pdag(st):
            st.regs["Q"] = st.regs["P"].conj_trans()
            st.sh["Q"] = st.sh["P"].conj().T
        acts.append(Action("Q=P.conj_trans()", q_pdag))

        def q_OP(st):
            st.regs["Q"] = call(st.regs["O"].apply, st.regs["P"])
            st.sh["Q"] = st.sh["O"] @ st.sh["P"]
        acts.append(Action("Q=O.apply(P)", q_OP))

    def q_odag(st):
        st.regs["Q"] = st.regs["O"].conj_trans()
        st.sh["Q"] = st.sh["O"].conj().T
    acts.append(Action("Q=O.conj_trans()", q_odag))

    def q_OO(st):
        st.regs["Q"] = call(st.regs["O"].apply, st.regs["O"])
        st.sh["Q"] = st.sh["O"] @ st.sh["O"]
    acts.append(Action("Q=O.apply(O)", q_OO))

    def q_add(st):
        if "Q" not in st.regs:
            raise Disabled("no Q")
        st.regs["Q"] = call(st.regs["Q"].add, st.regs["Q"].scale(0.5))
        st.sh["Q"] = st.sh["Q"] * 1.5
    acts.append(Action("Q=Q.add(Q.scale(.5))", q_add))

    def q_can(st):
        if "Q" not in st.regs:
            raise Disabled("no Q")
        call(st.regs["Q"].canonicalise)
    acts.append(Action("Q.canonicalise()", q_can))

    def q_cmp(st):
        if "Q" not in st.regs:
            raise Disabled("no Q")
        lossless_config(st.regs["Q"])
        call(st.regs["Q"].compress)
    acts.append(Action("Q.compress(lossless)", q_cmp))

    def apply_Q(st):
        if "Q" not in st.regs:
            raise Disabled("no Q")
        st.regs["a"] = call(st.regs["Q"].apply, st.regs["a"])
        st.sh["a"] = st.sh["Q"] @ st.sh["a"]
    acts.append(Action("a=Q.apply(a)", apply_Q))

    if has_d:
        def d_from(st):
            from renormalizer.mps import MpDm
            st.regs["d"] = MpDm.from_mps(st.regs["a"])
            # the embedding itself is not stated by any property (it drops imaginary parts of a complex state, noted in
            # DESIGN.md): the shadow is whatever matrix the new object represents
            st.sh["d"] = dense_of(st.regs["d"])
        acts.append(Action("d=MpDm.from_mps(a)", d_from))

        def d_apply_O(st):
            if "d" not in st.regs:
                raise Disabled("no d")
            st.regs["d"] = call(st.regs["d"].apply, st.regs["O"])
            st.sh["d"] = st.sh["d"] @ st.sh["O"]
        acts.append(Action("d=d.apply(O)", d_apply_O))

        def O_apply_d(st):
            if "d" not in st.regs:
                raise Disabled("no d")
            st.regs["d"] = call(st.regs["O"].apply, st.regs["d"])
            st.sh["d"] = st.sh["O"] @ st.sh["d"]
        acts.append(Action("d=O.apply(d)", O_apply_d))

        def d_can(st):
            if "d" not in st.regs:
                raise Disabled("no d")
            call(st.regs["d"].canonicalise)
        acts.append(Action("d.canonicalise()", d_can))

        def d_elc(st):
            if "d" not in st.regs:
                raise Disabled("no d")
            st.regs["d"].ensure_right_canonical()
        acts.append(Action("d.ensure_right_canonical()", d_elc))

        def d_add(st):
            if "d" not in st.regs:
                raise Disabled("no d")
            st.regs["d"] = call(st.regs["d"].add, st.regs["d"].scale(2.0))
            st.sh["d"] = st.sh["d"] * 3.0
        acts.append(Action("d=d.add(d.scale(2))", d_add))
    return acts


def scalar_actions(has_d=False):
    """scalar-valued public methods; compared with dense algebra on the *tensor part* (the library's convention: dot,
    mp_norm, angle and expectation ignore the scalar prefactor, norm and distance include it)"""
    acts = []

    def tens(st, r):
        return dense_of(st.regs[r], with_coeff=False)

    def dot(st):
        got = st.regs["a"].dot(st.regs["b"])
        ref = np.sum(tens(st, "a") * tens(st, "b"))
        if not _scalar_ok(got, ref):
            return [("scalar:dot", "a", f"a.dot(b)={got} dense={ref}")]
    acts.append(Action("a.dot(b)", dot))

    def conjdot(st):
        got = st.regs["a"].conj().dot(st.regs["b"])
        ref = np.vdot(tens(st, "a"), tens(st, "b"))
        if not _scalar_ok(got, ref):
            return [("scalar:conj-dot", "a", f"a.conj().dot(b)={got} dense={ref}")]
    acts.append(Action("a.conj().dot(b)", conjdot))

    def angle(st):
        got = st.regs["a"].angle(st.regs["b"])
        ref = abs(np.vdot(tens(st, "a"), tens(st, "b")))
        if not _scalar_ok(got, ref):
            return [("scalar:angle", "a", f"a.angle(b)={got} dense={ref}")]
    acts.append(Action("a.angle(b)", angle))

    def dist(st):
        got = st.regs["a"].distance(st.regs["b"])
        ref = np.linalg.norm(st.sh["a"] - st.sh["b"])
        if not abs(got - ref) <= 1e-6 * max(np.linalg.norm(st.sh["a"]), np.linalg.norm(st.sh["b"]), 1e-6):
            return [("scalar:distance", "a", f"a.distance(b)={got} dense={ref}")]
    acts.append(Action("a.distance(b)", dist))

    def mpnorm(st):
        got = st.regs["a"].mp_norm
        ref = np.linalg.norm(tens(st, "a"))
        if not _scalar_ok(got, ref, 1e-7):
            return [("scalar:mp_norm", "a", f"a.mp_norm={got} dense={ref}")]
    acts.append(Action("a.mp_norm", mpnorm))

    def norm(st):
        got = st.regs["b"].norm
        ref = np.linalg.norm(st.sh["b"])
        if not _scalar_ok(got, ref, 1e-7):
            return [("scalar:norm", "b", f"b.norm={got} dense={ref}")]
    acts.append(Action("b.norm", norm))

    def expect(st):
        got = st.regs["a"].expectation(st.regs["O"])
        va = tens(st, "a")
        ref = np.vdot(va, st.sh["O"] @ va)
        if not _scalar_ok(got, ref):
            return [("scalar:expectation", "a", f"a.expectation(O)={got} dense={ref}")]
    acts.append(Action("a.expectation(O)", expect))

    def trans(st):
        if np.any(st.regs["a"].qntot != st.regs["b"].qntot):
            raise Disabled("different sectors")
        got = st.regs["a"].expectation(st.regs["O"], self_conj=st.regs["b"].conj())
        ref = np.vdot(tens(st, "b"), st.sh["O"] @ tens(st, "a"))
        if not _scalar_ok(got, ref):
            return [("scalar:transition-amplitude", "a", f"a.expectation(O, b.conj())={got} dense={ref}")]
    acts.append(Action("a.expectation(O,self_conj=b.conj())", trans))
    return acts
