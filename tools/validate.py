#!/usr/bin/env python3-vt
"""validate MANIFEST.json and every evidence file against the schemas (tooling venv has jsonschema)"""
import json
import os
import sys

import jsonschema

ROOT = os.path.dirname(os.path.dirname(os.path.abspath(__file__)))
ok = True
man = json.load(open(os.path.join(ROOT, "MANIFEST.json")))
jsonschema.validate(man, json.load(open("/root/.vp/MANIFEST.schema.json")))
print("MANIFEST ok:", len(man["checks"]), "checks,", len(man.get("not_applicable", [])), "not applicable")
props = [json.loads(l)["id"] for l in open(os.path.join(ROOT, "properties.jsonl"))]
claimed = [c["property_id"] for c in man["checks"]]
na = [c["property_id"] for c in man.get("not_applicable", [])]
missing = [p for p in props if p not in claimed and p not in na]
if missing:
    print("properties neither claimed nor not_applicable:", missing)
    ok = False
es = json.load(open("/root/.vp/EVIDENCE.schema.json"))
for c in man["checks"]:
    p = os.path.join(ROOT, c["evidence_file"]) if not c["evidence_file"].startswith("/") else c["evidence_file"]
    if not os.path.exists(p):
        print("missing evidence", p)
        ok = False
        continue
    ev = json.load(open(p))
    try:
        jsonschema.validate(ev, es)
        if ev["level"] != c["level_claimed"]["category"]:
            print("level mismatch", c["property_id"], ev["level"], c["level_claimed"]["category"])
            ok = False
        cov = ev["coverage"]
        print(f"  {c['property_id']} {ev['tier']:8s} {ev['level']:17s} eval={cov.get('evaluations')} nontriv={cov.get('distinct_nontrivial')} "
              f"states={cov.get('states')} trans={cov.get('transitions')} exh={cov.get('exhaustive')} viol={ev.get('violations')} wall={ev['wall_s']}")
    except jsonschema.ValidationError as e:
        print("INVALID evidence", p, e.message)
        ok = False
sys.exit(0 if ok else 1)
