#!/usr/bin/env python3
"""compare a junit xml of the pinned suite with BASELINE.json's stable_pass list"""
import json, sys
import xml.etree.ElementTree as ET
base = set(json.load(open('/root/.vp/BASELINE.json'))['stable_pass'])
passed = set()
for tc in ET.parse(sys.argv[1]).getroot().iter('testcase'):
    if not any(ch.tag in ('failure', 'error', 'skipped') for ch in tc):
        passed.add(f"{tc.get('classname')}::{tc.get('name')}")
missing = sorted(base - passed)
print(f"baseline stable_pass={len(base)} passed_now={len(passed)} missing={len(missing)}")
for m in missing:
    print("  MISSING", m)
sys.exit(1 if missing else 0)
