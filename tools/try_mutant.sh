#!/bin/bash
# usage: tools/try_mutant.sh <patch.diff> <Cxx> [more check args]   -- apply to /repo, run the check (no evidence), revert
set -u
PATCH="$(readlink -f "$1")"; shift
CID="$1"; shift
cd /repo || exit 2
if ! git diff --quiet; then echo "/repo has uncommitted changes"; exit 2; fi
if ! git apply --check "$PATCH" 2>/dev/null; then
  if ! git apply --3way --check "$PATCH" 2>/dev/null; then echo "PATCH DOES NOT APPLY"; exit 2; fi
fi
git apply "$PATCH" || git apply --3way "$PATCH"
cd /verif
bin/check "$CID" --no-evidence "$@" 2>&1 | tail -${TAIL:-12}
rc=${PIPESTATUS[0]}
git -C /repo checkout -- . ; git -C /repo reset -q
echo "exit=$rc"
