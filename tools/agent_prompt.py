#!/usr/bin/env python3
"""print the prompt handed to a mutant-writing sub-agent for property <id> (only the property text + worktree)"""
import json, sys
cid = sys.argv[1]
wt = sys.argv[2] if len(sys.argv) > 2 else f"/tmp/wt_{cid}"
p = [json.loads(l) for l in open('/verif/properties.jsonl') if json.loads(l)['id'] == cid][0]
focus = sys.argv[3] if len(sys.argv) > 3 else ""
focus_txt = f"\nTo diversify the evaluation, aim your change at THIS part of the statement: {focus}\n" if focus else ""
print(f"""You are helping to evaluate a verification effort for the Python package Renormalizer (tensor networks: MPS/MPO, TTNS/TTNO, DMRG, TDVP).
You have your OWN scratch git worktree of the repository at {wt} (detached HEAD). Work ONLY inside {wt}. Never touch /repo or /verif and do not read anything under /verif.

Here is a semantic property that the package is supposed to satisfy:

  id: {p['id']}
  title: {p['title']}
  statement: {p['statement']}
  quantified over: {p['quantifier']['text']}
  code anchors: {', '.join(p['anchors']['files'])}

{focus_txt}
YOUR TASK: write a realistic, small source change (a plausible bug a developer could introduce: off-by-one, wrong index/axis, wrong branch condition, copy replaced by reference, stale cache key, sign, wrong side for a factor, missed special case ...) to the package under {wt}/renormalizer that BREAKS this property, while
  (1) the package still imports and the EXISTING test-suite still passes (see below), and
  (2) the breakage needs something SPECIFIC to manifest -- a particular input structure, an unusual but valid input, a multi-step sequence of operations, a particular gauge/centre position/history of the object, a particular configuration, or two cooperating sites that each look fine alone -- NOT something that ordinary use or the existing tests would expose at once.
Do not edit, delete or weaken any existing test. Do not add new dependencies. Keep the change small (a few lines, at most two cooperating sites).

Deliver, inside {wt}:
  * the source change itself left applied in the worktree (uncommitted is fine),
  * `{wt}/mutant/patch.diff`  = output of `git -C {wt} diff -- renormalizer` (the source change only),
  * `{wt}/mutant/demo.py`     = a small stand-alone program (or pytest file) that exits 0 / passes on the ORIGINAL code and exits non-zero / fails WITH your change, demonstrating the violated property against a dense/independent reference,
  * `{wt}/mutant/meta.json`   = {{"property": "{cid}", "summary": "...", "needs_to_manifest": "...", "files_changed": [...], "tests_run": "...", "demo_cmd": "..."}}.
Verify yourself: run demo.py with your change (must fail) and with the change temporarily reverted (must pass). NEVER use `git stash`: the stash is shared by all worktrees of the repository and other agents use it concurrently. To compare with/without use `git -C {wt} diff -- renormalizer > {wt}/mutant/patch.diff; git -C {wt} apply -R {wt}/mutant/patch.diff; <run>; git -C {wt} apply {wt}/mutant/patch.diff`.

Environment facts (the sandbox has NO network; nothing can be installed):
  * interpreter: /venv/bin/python (3.12, numpy 2.x, scipy). Run things as:  cd {wt} && OMP_NUM_THREADS=1 PYTHONPATH={wt} /venv/bin/python ...
  * ALWAYS set OMP_NUM_THREADS=1 (16 cores are shared with other jobs; BLAS oversubscription makes everything 20x slower).
  * `renormalizer.tn` imports a module `print_tree` that is NOT installed; in demo.py put this BEFORE importing renormalizer.tn:
        import sys, types; m = types.ModuleType("print_tree"); m.print_tree = type("print_tree", (), {{"__init__": lambda self,*a,**k: setattr(self, "rows", [])}}); sys.modules["print_tree"] = m
    (consequently the tests under renormalizer/tn are NOT part of the passing baseline and need not pass).
  * the existing test-suite that must keep passing is: cd {wt} && OMP_NUM_THREADS=1 /venv/bin/python -m pytest -q -p no:cacheprovider -n 4 --timeout=900 renormalizer
    It takes ~10 minutes with -n 4. Some tests fail ALREADY on the unmodified code (qutip API: mps/tests/test_mpo.py::test_symbolic_mpo*, model/tests/test_basis.py::test_SineDVR[op2..op8], cv/, transport/tests/test_kubo.py, model/op.py doctest split_elementary, everything under tn/): those do not count. First run only the test files closest to your change, and run the whole suite once at the end; report exactly which tests you ran and the pass/fail counts compared with the unmodified code (revert with `git apply -R` as above to compare if in doubt; never `git stash`).
  * do not leave large files behind; do not write outside {wt}.

In your final answer give: the idea of the bug, why the existing tests cannot see it, what exactly is needed to trigger it, and the output of demo.py with and without the change.""")
