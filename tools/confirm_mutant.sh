#!/bin/bash
# usage: tools/confirm_mutant.sh seeded/<id>   -- confirm in a scratch worktree: demo passes without / fails with the patch,
# and the pinned test-suite gives the same pass set as /repo HEAD (baseline junit in /tmp/logs/repo_head.xml, regenerated if absent)
set -u
D="$(cd "$1" && pwd)"
WT=/tmp/cm_$$
export OMP_NUM_THREADS=1
git -C /repo worktree add -q --detach "$WT" HEAD || exit 2
cleanup() { git -C /repo worktree remove --force "$WT" 2>/dev/null; rm -rf "$WT"; }
trap cleanup EXIT
cd "$WT"
DEMO="$D/demo.py"
run_demo() { if grep -q "def test_" "$DEMO" && ! grep -q "__main__" "$DEMO"; then PYTHONPATH="$WT" /venv/bin/python -m pytest -q -p no:cacheprovider "$DEMO" >/tmp/cm_demo.out 2>&1; else PYTHONPATH="$WT" /venv/bin/python -W ignore "$DEMO" >/tmp/cm_demo.out 2>&1; fi; echo $?; }
r0=$(run_demo); tail -2 /tmp/cm_demo.out | cut -c1-200
git apply "$D/patch.diff" || { echo "patch does not apply"; exit 2; }
r1=$(run_demo); tail -2 /tmp/cm_demo.out | cut -c1-200
echo "demo exit without patch: $r0   with patch: $r1"
if [ ! -f /tmp/logs/repo_head.xml ]; then mkdir -p /tmp/logs; (cd /repo && /venv/bin/python -m pytest -q -p no:cacheprovider -n 14 --timeout=900 --continue-on-collection-errors --junitxml=/tmp/logs/repo_head.xml renormalizer >/dev/null 2>&1); fi
/venv/bin/python -m pytest -q -p no:cacheprovider -n ${NJ:-14} --timeout=900 --continue-on-collection-errors --junitxml=/tmp/cm_mut.xml renormalizer > /tmp/cm_mut.log 2>&1
tail -1 /tmp/cm_mut.log
python3 - "$D" "$r0" "$r1" <<'PY'
import sys, json, xml.etree.ElementTree as ET
def passed(p):
    s=set()
    for tc in ET.parse(p).getroot().iter('testcase'):
        if not any(c.tag in ('failure','error','skipped') for c in tc):
            s.add(tc.get('classname','')+'::'+tc.get('name',''))
    return s
a=passed('/tmp/logs/repo_head.xml'); b=passed('/tmp/cm_mut.xml')
lost=sorted(a-b)
print("baseline passed:",len(a),"mutant passed:",len(b),"lost:",lost[:5])
d=sys.argv[1]; m=json.load(open(d+'/meta.json'))
m['confirmed']={"demo_exit_without_patch":int(sys.argv[2]),"demo_exit_with_patch":int(sys.argv[3]),
  "suite_passed_baseline":len(a),"suite_passed_with_patch":len(b),"tests_lost":lost,
  "how":"tools/confirm_mutant.sh in a scratch worktree of /repo HEAD; full pinned suite with -n 14"}
m['valid']= (int(sys.argv[2])==0 and int(sys.argv[3])!=0 and not lost)
json.dump(m,open(d+'/meta.json','w'),indent=1)
print("VALID" if m['valid'] else "INVALID")
PY
