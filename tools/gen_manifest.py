#!/usr/bin/env python3
"""(re)generate /verif/MANIFEST.json from the check modules that exist.  Run after adding a check."""
import json
import os
import re

ROOT = os.path.dirname(os.path.dirname(os.path.abspath(__file__)))

META = {
    "C01": ("exploration", "bounded-exhaustive input enumeration (all term tables / basis tuples / swap sequences up to the bound) against a dense Kronecker-sum oracle",
            "Every term table in the bounded space is built by the real Mpo constructor with all three algorithms and compared with the dense sum of Kronecker products; what is not enumerated are the numeric factor values beyond the factor alphabet.",
            "local matrices come from BasisSet.op_mat (checked separately by C16); numpy kron/allclose; factor alphabet finite"),
    "C02": ("exploration", "bounded-exhaustive enumeration of plane trees x basis placements x term tables against dense Kronecker sums and the chain MPO",
            "All ordered rooted trees up to the node bound, all placements of the basis sets (incl. dummy and multi-basis nodes), all small term tables and the library's tree constructors are enumerated; TTNO.todense(order) is compared with the dense operator and with the chain MPO.",
            "TTNO.todense contraction is part of the code under test on both sides only as an observer; dense oracle is independent (np.kron)"),
    "C03": ("model_checking", "explicit-state exploration of a register machine over real Mps/Mpo/MpDm objects (all gauge-operation x arithmetic-operation sequences to a depth bound + abstract-state BFS) with a dense shadow model in lock-step",
            "States are (gauge abstraction of every live object); transitions are real library calls; after each transition every register is compared with its dense shadow. Exhaustive up to the stated depth / to the abstract fixpoint.",
            "tensor entries are generic representatives from a seeded generator, not enumerated; numpy dense algebra is the reference"),
    "C04": ("model_checking", "abstract-state BFS to fixpoint over canonicalise/compress/ensure_* actions on real objects, invariant re-derived from raw tensors on every state",
            "Every reachable gauge state of the seed objects under the action alphabet is visited; represented object, sector, isometry claims and bond bounds are checked in every state.",
            "tensor entries generic; isometry tolerance 1e-8"),
    "C05": ("exploration", "bounded-exhaustive enumeration of states x per-bond limit vectors x thresholds x criteria against dense SVD spectra at every cut",
            "All limit vectors / thresholds / criteria in the bound are run on real compress(); Eckart-Young lower bound and TT-SVD upper bound are evaluated from dense SVDs.",
            "cases with a singular value within 1e-6 relative of a threshold are skipped and counted"),
    "C06": ("model_checking", "explicit-state exploration of operation sequences (arithmetic, gauge, truncation, optimisation, evolution) on labelled states with sector-projection and label-validity invariants on every state",
            "Every operation sequence up to the depth bound over every sector; invariant = zero amplitude outside the sector and stored labels valid for every tensor block.",
            "dense number operators built from basis.sigmaqn; tensor entries generic"),
    "C07": ("exploration", "bounded-exhaustive enumeration of operator lists (all lists up to a length over a colliding operator alphabet) x states x gauges, fast path vs slow path vs dense",
            "All operator lists up to the bound in every order, every site / site pair for RDMs and entropies, compared with dense definitions.",
            "dense partial traces in numpy; PYTHONHASHSEED fixed because the fast path keys on bytes hashes"),
    "C08": ("exploration", "exhaustive sweep of optimiser configurations (method x algo x nroots x schedule x sector) on small Hamiltonians against exact diagonalisation in the sector",
            "Every configuration in the bounded product is run on the real optimiser; variational bound and exactness at full bond are checked against dense eigh.",
            "primme not installed (branch unexplored); dense eigh is the reference"),
    "C09": ("exploration", "exhaustive sweep of evolution schemes x solvers x adaptive x initial-state gauges x step ladders, plus deviation-bounded call histories, against dense expm",
            "All scheme configurations in the bounded product and all call histories with <=2 deviations; error-order envelopes, split invariance, solver independence, PS conservation, bond limit.",
            "order is checked as envelope/slope over a finite dt ladder; scipy expm reference"),
    "C10": ("exploration", "exhaustive sweep of imaginary-time schemes x tau x steps x sectors and thermal propagation against dense Gibbs states",
            "All configurations in the bounded product compared with expm(-tau H) psi and Tr(e^{-beta H}O)/Z.",
            "scipy expm reference; envelopes for scheme error"),
    "C11": ("model_checking", "explicit-state exploration of TTNS operation sequences over all plane trees / basis placements with a dense shadow, plus children-order permutations",
            "All plane trees up to the bound x operations sequences up to depth; every register compared with dense shadow after each transition.",
            "tensor entries generic; explicit order passed to todense"),
    "C12": ("exploration", "exhaustive sweep of tree shapes x schemes x real/imag x dt against dense expm and the chain implementation",
            "All plane trees in the bound and all four schemes; envelopes, sector conservation, PS conservation, chain agreement.",
            "order checked as envelope; scipy expm reference"),
    "C13": ("model_checking", "explicit-state exploration of derive/mutate/observe programs over the public method alphabet with snapshots of every live object",
            "All programs 'derive b from a by m; [derive c from b by m']; mutate one by mu; observe others' for every m, m', mu in the alphabet; every non-target object must equal its dense snapshot.",
            "objects never created through library copy(); snapshots are dense arrays x coeff"),
    "C14": ("fault_enumeration", "exhaustive crash-point and torn-write enumeration of the real dump protocol over a fault-injecting file-system shim, BFS over left-over directory states incl. restarts; plus dump/load round-trip enumeration",
            "Every crash point before each mutating fs step and at torn-write positions of every write, for every step of a job and for restarted jobs, to a fixpoint of abstract directory states.",
            "crash model: completed fs calls durable, writes torn at byte prefixes, no reordering"),
    "C15": ("exploration", "bounded-exhaustive enumeration of Op/OpSum expression programs (depth-bounded) with a dense evaluator as homomorphism oracle",
            "All expression trees up to the depth bound over the atom/scalar/operator alphabet; dense(e1 op e2) == dense(e1) op dense(e2); eq/hash consistency over all pairs.",
            "dense evaluator uses local matrices of HalfSpin/SHO bases (C16) and np.kron"),
    "C16": ("exploration", "exhaustive enumeration of basis classes x sizes x parameters x supported symbols and of model-builder parameter grids against independently written matrices",
            "Every supported symbol of every basis class at every size in the bound against ladder matrices built in a larger space; builders against independently assembled Hamiltonians.",
            "reference matrices written in mc/ref/dense.py; Gauss-Legendre quadrature for sine-DVR"),
    "C17": ("exploration", "bounded-exhaustive enumeration of integral sparsity patterns and swap sequences against an independent fermionic (anticommuting) reference",
            "All sparsity masks of h for <=2 spatial orbitals, seeded eri, all swap sequences up to the bound with and without JW sign; OFS runs on small models.",
            "CAR verified inside the oracle; tensor values seeded"),
    "C18": ("exploration", "bounded-exhaustive enumeration of quantum-number label patterns (all patterns up to side bounds) for blocked SVD/QR/eigh and of structured spectra/start vectors for the Krylov exponential",
            "Every label pattern with sides up to the bound and every qntot; every (size, spectrum kind, start kind, dt, block size) combination.",
            "scipy expm / numpy SVD reference; admissible dt range made explicit"),
    "C19": ("exploration", "complete enumeration of (method,row,rooted tree<=order) Butcher conditions",
            "The space is finite and enumerated completely: all ten tableaux, both rows of embedded pairs, all 17 rooted trees to order five, row sums, derived expansion, Taylor coefficients.",
            "rooted-tree generator and gamma(t) written in mc/space.py (counts asserted)"),
    "C20": ("exploration", "complete enumeration of all labelled bipartite graphs up to |U|x|V| bound for both algorithms + bond-dimension consequence over all small term tables, brute-force minimum cover as oracle",
            "Every labelled bipartite graph up to the bound incl. isolated vertices and empty graphs; every term table of the C01 space for the bond-dimension consequence; graphs seen at the call boundary re-checked.",
            "brute-force cover/matching in mc/ref/graph.py"),
}

DESIGN_REF = {k: f"DESIGN.md section 5, {k}" for k in META}


def main():
    checks_dir = os.path.join(ROOT, "checks")
    have = sorted({"C" + fn[1:3] for fn in os.listdir(checks_dir) if re.match(r"c\d\d_.*\.py$", fn)})
    props = [json.loads(l) for l in open(os.path.join(ROOT, "properties.jsonl"))]
    disabled = {}
    dis_file = os.path.join(ROOT, "tools", "not_claimed.json")
    if os.path.exists(dis_file):
        disabled = json.load(open(dis_file))
    checks = []
    na = []
    for p in props:
        cid = p["id"]
        if cid in have and cid not in disabled:
            cat, tech, text, note = META[cid]
            checks.append({
                "property_id": cid,
                "quick_cmd": f"bin/check {cid} --tier quick",
                "thorough_cmd": f"bin/check {cid} --tier thorough",
                "evidence_file": f"evidence/{cid}.json",
                "replay_cmd_template": f"bin/check {cid} --replay {{path}}",
                "engine": "mc",
                "level_claimed": {"category": cat, "text": text, "design_ref": DESIGN_REF[cid]},
                "level_note": note,
                "technique": tech,
            })
        else:
            na.append({"property_id": cid,
                       "reason": disabled.get(cid, "check not built yet in this session (planned: DESIGN.md section 5); not claimed until its machinery exists")})
    man = {
        "version": 1,
        "setup_cmd": "bin/setup",
        "hooks": {
            "guard": "RENO_VERIF",
            "enable": "export RENO_VERIF=1 (set by bin/check); no source hooks exist: interception is done by monkey-patching module attributes from the harness process",
            "baseline_off_cmd": "cd /repo && env -u RENO_VERIF /venv/bin/python -m pytest -ra -q -p no:cacheprovider --timeout=900 --continue-on-collection-errors",
            "source_commits": [],
            "add_only": True,
        },
        "engines": [{
            "name": "mc",
            "path": "mc/",
            "serves_properties": [c["property_id"] for c in checks],
            "kind_free_text": "hand-written explicit-state / bounded-exhaustive explorer for Python: case spaces in mc/space.py, "
                              "register machine + abstract-state BFS in mc/machine.py, fault-injecting fs shim in mc/faults.py, "
                              "dense reference models in mc/ref/, parallel runner + evidence in mc/run.py",
        }],
        "checks": checks,
        "notes": "All checks import Renormalizer from /repo's working tree (PYTHONPATH=/repo, no bytecode written). "
                 "VERIF_SEED selects the generic tensor entries; the structure space is the same for every seed. "
                 "Known findings: known_findings.json.",
        "not_applicable": na,
    }
    with open(os.path.join(ROOT, "MANIFEST.json"), "w") as f:
        json.dump(man, f, indent=1)
    print("claimed:", [c["property_id"] for c in checks])
    print("not claimed:", [c["property_id"] for c in na])


if __name__ == "__main__":
    main()
