#!/usr/bin/env python3
"""print a markdown table (property, level, executions, distinct non-trivial, states/transitions, bound) from evidence/*.json"""
import glob, json
print("| property | level | executions | distinct non-trivial | states / transitions | bound completed (quick tier) |")
print("|---|---|---|---|---|---|")
for f in sorted(glob.glob('/verif/evidence/C*.json')):
    e = json.load(open(f)); c = e['coverage']
    st = f"{c.get('states','-')} / {c.get('transitions','-')}" if 'states' in c else "-"
    b = json.dumps(c.get('bound'), ensure_ascii=False).replace("|", "/")
    print(f"| {e['property_id']} | {e['level']} | {c['evaluations']} | {c['distinct_nontrivial']} | {st} | `{b[:420]}` |")
