#!/bin/bash
# usage: tools/catch_matrix.sh [seeded dirs...]   -- for every seeded change: apply it to a scratch worktree of /repo HEAD (outside /repo and /verif),
# run the property's own check against that worktree (REPO_DIR), record exit code + signatures, remove the worktree.  Output: seeded/CATCH.tsv
set -u
cd /verif
WT=/tmp/cmx_$$
git -C /repo worktree add --detach "$WT" HEAD -q || exit 2
trap 'git -C /repo worktree remove --force "$WT" 2>/dev/null' EXIT
DIRS=("$@"); [ ${#DIRS[@]} -eq 0 ] && DIRS=(seeded/C*)
for d in "${DIRS[@]}"; do
  d=${d%/}; name=$(basename "$d"); cid=${name%%-*}
  [ -f "$d/patch.diff" ] || continue
  git -C "$WT" checkout -q -- . ; git -C "$WT" clean -fdq
  if ! git -C "$WT" apply "$(readlink -f $d/patch.diff)" 2>/dev/null; then
    printf "%s\t%s\tSTALE\t-\tpatch does not apply to /repo HEAD\n" "$name" "$cid"; continue
  fi
  t0=$(date +%s)
  out=$(REPO_DIR="$WT" bin/check "$cid" --no-evidence ${TIER:+--tier $TIER} 2>&1); rc=$?
  t1=$(date +%s)
  sigs=$(echo "$out" | grep -o "violation sig=[^ ]*" | sed 's/violation sig=//' | head -4 | tr '\n' ' ')
  printf "%s\t%s\t%s\t%ss\t%s\n" "$name" "$cid" "$([ $rc -eq 1 ] && echo CAUGHT || echo "MISSED(rc=$rc)")" "$((t1-t0))" "$sigs"
done
