"""C05 -- truncation respects the bond limit and the discarded-weight error bound.   (E1)

Chains: states {generic full rank, low rank (rank already below M), exactly degenerate Schmidt values, GHZ-like,
labelled random states in every sector} x n x local dimension x EVERY per-bond limit vector in {1,2,3}^(n-1) given in each
of the four ways the library accepts a limit (global max_bonddim, compress_config.max_dims vector, temp_m_trunc int,
temp_m_trunc list) x thresholds x the three criteria x both sweep directions x ret_s.
Oracle from dense SVDs of the ORIGINAL vector at every cut (sigma^(b)), with m_b the returned bond dimensions:
    m_b <= limit_b ;  ||phi|| <= ||psi|| ;
    max_b sqrt(sum_{i>m_b} sigma_i^(b)^2)  <=  ||psi - phi||  <=  sqrt(sum_b sum_{i>m_b} sigma_i^(b)^2)
    first row of ret_s == dense spectrum of the first cut of the sweep; under `threshold` the kept count at the first cut equals
    the number of normalised singular values above the threshold.
Trees: every plane tree up to the node bound with per-node limits (TTNS.compress), same inequalities over tree edges.
"""
import itertools

import numpy as np

from mc import env  # noqa: F401
from mc.chains import Chain, sectors
from mc.machine import dense_of
from mc import machine as M
from mc.ref.dense import close, rel_err

ID = "C05"
LEVEL = "exploration"
RULE = ("one case = (state kind, n, d/family, sector, direction) running EVERY limit specification in the bound; non-trivial = at least one "
        "limit specification truncated at least one bond (m_b < rank_b); distinct = distinct descriptor; counters give the number of compressions")
ASSUMPTIONS = [
    "singular values / distances are compared with absolute slack 1e-9 ||psi||",
    "threshold cases with a normalised singular value within 1e-6 (relative) of the threshold are skipped and counted",
    "tensor entries are seeded; degenerate spectra are constructed exactly (orthonormal Schmidt vectors with equal weights)",
]
HORIZON_S = 600
THRESHOLDS = [0.5, 0.1, 1e-2, 1e-4]


def BOUND(tier):
    return {"chains": "n=2..4 (d=2,3), labelled elec/two n=3..4" if tier == "quick" else "n=2..5 (d=2,3), labelled elec/two/eph n=3..5",
            "limits": "all vectors in {1,2,3}^(n-1) x 4 specification styles, global M=1..4, thresholds " + str(THRESHOLDS),
            "trees": "plane trees <= 4 nodes" if tier == "quick" else "plane trees <= 5 nodes",
            "settings_histories": "5 sibling histories x 3 derivations; 7 own-settings histories x 3 thresholds x 2 sweep directions"}


def cases(tier, seed):
    quick = tier == "quick"
    for n in ((2, 3, 4) if quick else (2, 3, 4, 5)):
        for d in (2, 3):
            if n == 5 and d == 3:
                continue
            for kind in ("generic", "lowrank", "degenerate", "ghz", "complex"):
                for direction in ("L", "R"):
                    yield {"k": "chain", "fam": f"dense{d}", "n": n, "kind": kind, "dir": direction}
    for fam in (("elec", "two") if quick else ("elec", "two", "eph")):
        for n in ((3, 4) if quick else (3, 4, 5)):
            for sec in sectors(fam, n):
                for direction in ("L", "R"):
                    yield {"k": "chain", "fam": fam, "n": n, "kind": "random", "sector": sec, "dir": direction}
    for hist in CONFIG_HISTORIES:
        for derive in ("copy()", "conj()", "scale(1)"):
            yield {"k": "config-history", "history": hist, "derive": derive}
    for hist in OWN_HISTORIES:
        for thr in (0.1, 0.3, 1e-3):
            for direction in ("L", "R"):
                yield {"k": "own-config-history", "history": hist, "threshold": thr, "dir": direction}
    from mc.space import plane_trees
    for nn in ((2, 3, 4) if quick else (2, 3, 4, 5)):
        for it, parent in enumerate(plane_trees(nn)):
            for kind in ("generic", "qn"):
                yield {"k": "tree", "parent": parent, "kind": kind}


# ------------------------------------------------------------------------------------------------ chain states

def dense_state(n, d, kind, rs):
    D = d ** n
    if kind in ("generic", "complex"):
        v = rs.standard_normal(D)
        if kind == "complex":
            v = v + 1j * rs.standard_normal(D)
    elif kind == "lowrank":
        # sum of two product states: every Schmidt rank <= 2
        v = np.zeros(D)
        for _ in range(2):
            p = np.ones(1)
            for _s in range(n):
                p = np.kron(p, rs.standard_normal(d))
            v = v + p
    elif kind == "degenerate":
        # exactly equal Schmidt values at the middle cut: sum_k |l_k>|r_k> with orthonormal l_k, r_k
        h = n // 2
        dl, dr = d ** h, d ** (n - h)
        r = min(dl, dr)
        ql, _ = np.linalg.qr(rs.standard_normal((dl, dl)))
        qr_, _ = np.linalg.qr(rs.standard_normal((dr, dr)))
        w = np.ones(r)
        if r >= 3:
            w[-1] = 0.5      # a degenerate multiplet followed by a smaller value
        v = (ql[:, :r] * w) @ qr_[:, :r].T
        v = v.ravel()
    elif kind == "ghz":
        v = np.zeros(D)
        v[0] = 1.0
        v[-1] = 1.0
    else:
        raise ValueError(kind)
    return v / np.linalg.norm(v) * 1.7


def cut_spectra(v, dims):
    out = []
    for b in range(1, len(dims)):
        m = v.reshape(int(np.prod(dims[:b])), -1)
        out.append(np.linalg.svd(m, compute_uv=False))
    return out


def limit_specs(n):
    """(style, payload, per-bond limit list of length n-1)"""
    specs = []
    for M in (1, 2, 3, 4):
        specs.append(("global", M, [M] * (n - 1)))
        specs.append(("temp-int", M, [M] * (n - 1)))
    for vec in itertools.product((1, 2, 3), repeat=n - 1):
        if len(set(vec)) == 1 and n > 2:
            continue
        specs.append(("max_dims", list(vec), list(vec)))
        specs.append(("temp-list", list(vec), list(vec)))
        # explicit per-bond limits LARGER than the scalar the config was constructed with (which only seeds max_dims lazily)
        specs.append(("max_dims-above-constructor-value", list(vec), list(vec)))
    return specs


def run_chain(desc, seed):
    from renormalizer.mps import Mps
    from renormalizer.model import Model, basis as ba
    from renormalizer.utils import CompressConfig, CompressCriteria
    n, fam, kind, direction = desc["n"], desc["fam"], desc["kind"], desc["dir"]
    rs = env.rng(seed, ("c05", fam, n, kind, tuple(desc.get("sector", []))))

    def fresh():
        if fam.startswith("dense"):
            d = int(fam[5:])
            basis = [ba.BasisHalfSpin(i) if d == 2 else ba.BasisSHO(i, 1.0, d) for i in range(n)]
            model = Model(basis, [])
            v = dense_state(n, d, kind, env.rng(seed, ("c05v", fam, n, kind)))
            mps = Mps.from_dense(model, v)
            return mps
        ch = Chain(fam, n, seed)
        return ch.random_mps(desc["sector"], 16, "c05", cplx=(n % 2 == 0))

    base = fresh()
    psi = dense_of(base)
    dims = [b.nbas for b in base.model.basis]
    spectra = cut_spectra(psi, dims)
    norm = np.linalg.norm(psi)
    slack = 1e-9 * norm
    viol = {}
    ncomp = 0
    nskip = 0
    truncated_any = False

    def add(sig, msg):
        if sig not in viol:
            viol[sig] = {"sig": sig, "msg": msg}

    def prepared():
        m = fresh()
        if direction == "L":
            m.ensure_left_canonical()      # compress then sweeps right -> left
        else:
            m.ensure_right_canonical()     # compress then sweeps left -> right
        return m

    def check(tag, m, ret, limits, s_array=None, thr=None, crit=None):
        nonlocal truncated_any
        phi = dense_of(m)
        bd = list(m.bond_dims)
        if bd[0] != 1 or bd[-1] != 1 or min(bd) < 1:
            add(f"C05:bond-dims-invalid:{crit}", f"{tag}: bond dims {bd}")
            return
        mb = bd[1:-1]
        if limits is not None:
            for b, (x, lim) in enumerate(zip(mb, limits)):
                if x > lim:
                    add(f"C05:limit-exceeded:{tag.split()[0]}:{direction}", f"{tag}: bond {b + 1} has dimension {x} > limit {lim}; bond dims {bd}, limits {limits}")
        nphi = np.linalg.norm(phi)
        if nphi > norm * (1 + 1e-9):
            add(f"C05:norm-grew:{crit}", f"{tag}: ||phi||={nphi} > ||psi||={norm}")
        dist = np.linalg.norm(psi - phi)
        lows = [np.sqrt(np.sum(s[x:] ** 2)) for s, x in zip(spectra, mb)]
        low = max(lows) if lows else 0.0
        up = np.sqrt(sum(l ** 2 for l in lows))
        if any(x < len(s) and s[x] > 1e-12 * norm for s, x in zip(spectra, mb)):
            truncated_any = True
        if dist < low - slack:
            add(f"C05:below-eckart-young:{crit}", f"{tag}: distance {dist} < largest single-bond discarded weight {low}")
        if dist > up + slack:
            add(f"C05:above-discarded-weight:{tag.split()[0]}:{direction}", f"{tag}: distance {dist:.6e} > sqrt(summed discarded weights) {up:.6e}; bond dims {bd} limits {limits}")
        if limits is not None and thr is None:
            # the bound of the property is in terms of the REQUESTED limits: sqrt(sum_b sum_{k > M_b} sigma_k^2) of the original state
            up_req = np.sqrt(sum(np.sum(s[x:] ** 2) for s, x in zip(spectra, limits)))
            if dist > up_req + slack:
                add(f"C05:over-truncated:{tag.split()[0]}:{direction}", f"{tag}: distance {dist:.6e} > sqrt(summed discarded weights for the requested limits) {up_req:.6e}; bond dims {bd} limits {limits}")
        if s_array is not None:
            first_cut = (n - 2) if direction == "L" else 0
            ref = spectra[first_cut]
            got = np.asarray(s_array[0])
            k = max(len(ref), len(got))
            a = np.pad(np.sort(got)[::-1], (0, k - len(got)))
            b_ = np.pad(ref, (0, k - len(ref)))
            if not np.allclose(a, b_, atol=1e-9 * norm):
                add(f"C05:ret_s:{direction}", f"{tag}: first row of ret_s {a} != dense spectrum {b_} of cut {first_cut + 1}")
            if thr is not None:
                nz = ref / np.linalg.norm(ref)
                if np.any(np.abs(nz - thr) < 1e-6 * thr):
                    return "skip"
                want = int(np.sum(nz > thr))
                if crit == "both" and limits is not None:
                    want = min(want, limits[first_cut])
                if mb[first_cut] != want:
                    add(f"C05:threshold-count:{crit}", f"{tag}: kept {mb[first_cut]} states at the first cut, {want} normalised singular values exceed {thr}")
        return None

    def run(tag, configure, limits, thr=None, crit=None, ret_s=True):
        nonlocal ncomp, nskip
        m = prepared()
        try:
            temp = configure(m)
            ncomp += 1
            if ret_s:
                r, s_array = m.compress(temp_m_trunc=temp, ret_s=True)
            else:
                r, s_array = m.compress(temp_m_trunc=temp), None
        except Exception as e:
            cls = "empty-bond" if (thr is not None and all(np.sum(s / np.linalg.norm(s) > thr) == 0 for s in spectra[:1] + spectra[-1:])) else "other"
            import sys
            import traceback
            tb = traceback.extract_tb(sys.exc_info()[2])
            lib = [f.name for f in tb if "/renormalizer/" in f.filename]
            add(f"C05:exception:{type(e).__name__}:{lib[-1] if lib else '?'}:{crit}", f"{tag}: compress raised {e!r}")
            return
        if r is not m:
            add("C05:return-not-self", f"{tag}: compress did not return self")
        if check(tag, m, r, limits, s_array, thr, crit) == "skip":
            nskip += 1

    for style, payload, limits in limit_specs(n):
        if style == "global":
            def cfg(m, payload=payload):
                m.compress_config = CompressConfig(CompressCriteria.fixed, max_bonddim=payload)
                return None
        elif style == "temp-int":
            def cfg(m, payload=payload):
                m.compress_config = CompressConfig(CompressCriteria.fixed, max_bonddim=64)
                return payload
        elif style == "max_dims":
            def cfg(m, payload=payload):
                m.compress_config = CompressConfig(CompressCriteria.fixed, max_bonddim=64)
                m.compress_config.max_dims = np.array([1] + payload + [1])
                return None
        elif style == "max_dims-above-constructor-value":
            def cfg(m, payload=payload):
                m.compress_config = CompressConfig(CompressCriteria.fixed, max_bonddim=1)
                m.compress_config.max_dims = np.array([1] + payload + [1])
                return None
        else:
            def cfg(m, payload=payload):
                m.compress_config = CompressConfig(CompressCriteria.fixed, max_bonddim=64)
                return [1] + payload + [1]
        run(f"{style} limits={limits} dir={direction}", cfg, limits, crit="fixed", ret_s=(style != "temp-int"))
        if style == "max_dims":
            # the same per-bond table under the criterion that combines it with a threshold (here far below every singular value)
            def cfgb(m, payload=payload):
                m.compress_config = CompressConfig(CompressCriteria.both, threshold=1e-14, max_bonddim=64)
                m.compress_config.max_dims = np.array([1] + payload + [1])
                return None
            run(f"max_dims+both limits={limits} dir={direction}", cfgb, limits, crit="both-per-bond", ret_s=True)
    for thr in THRESHOLDS:
        def cfg(m, thr=thr):
            m.compress_config = CompressConfig(CompressCriteria.threshold, threshold=thr)
            return None
        run(f"threshold={thr} dir={direction}", cfg, None, thr=thr, crit="threshold")
        for M in (1, 2, 3):
            def cfg2(m, thr=thr, M=M):
                m.compress_config = CompressConfig(CompressCriteria.both, threshold=thr, max_bonddim=M)
                return None
            run(f"both threshold={thr} M={M} dir={direction}", cfg2, [M] * (n - 1), thr=thr, crit="both")
    return {"nontrivial": truncated_any, "counters": {"compressions": ncomp, "threshold_adjacent_skipped": nskip}, "skipped": 0,
            "outcome": f"chain:{'viol' if viol else 'ok'}", "viol": list(viol.values()),
            "sample": {"desc": desc, "schmidt_ranks": [int(np.sum(s > 1e-12 * norm)) for s in spectra], "compressions": ncomp}}


CONFIG_HISTORIES = ["sibling-fixed-first", "sibling-limit-raised", "sibling-threshold-lowered", "sibling-threshold-raised", "sibling-criterion-changed"]


def run_config_history(desc, seed):
    """a state and a copy of it (copy(), conj(), an operator applied) own SEPARATE truncation settings: what is written into the settings
    of the sibling -- by attribute assignment, or by the lazily filled per-bond table of a first compression -- must not change how the
    state itself is truncated.  Checked with the same bounds as everywhere: own limit obeyed, distance within the discarded weights."""
    import copy as _copy
    from renormalizer.utils import CompressConfig, CompressCriteria
    ch = Chain("spin", 6, seed)
    s0 = ch.random_mps([0], 8, "c05cfg", cplx=(desc["derive"] == "conj()"))
    s0.ensure_left_canonical()
    psi = M.dense_of(s0)
    norm = np.linalg.norm(psi)
    dims = ch.dims
    spectra = []
    for cut in range(1, len(dims)):
        Mx = psi.reshape(int(np.prod(dims[:cut])), -1)
        spectra.append(np.linalg.svd(Mx, compute_uv=False))
    viol = {}

    def add(sig, msg):
        if sig not in viol:
            viol[sig] = {"sig": sig, "msg": msg}
    hist = desc["history"]
    own_fixed = hist in ("sibling-fixed-first", "sibling-limit-raised", "sibling-criterion-changed")
    s = _copy.deepcopy(s0)
    s.compress_config = CompressConfig(CompressCriteria.fixed, max_bonddim=3) if own_fixed else \
        CompressConfig(CompressCriteria.threshold, threshold=(0.3 if hist == "sibling-threshold-lowered" else 1e-9))
    before = (s.compress_config.criteria, s.compress_config.threshold, s.compress_config.bond_dim_max_value)
    derive = {"copy()": lambda z: z.copy(), "conj()": lambda z: z.conj(), "scale(1)": lambda z: z.scale(1.0)}[desc["derive"]]
    t = derive(s)
    tag = f"[{hist}, sibling = state.{desc['derive']}]"
    try:
        if hist == "sibling-fixed-first":
            t.compress_config.bond_dim_max_value = 1
            t.compress_config.max_dims = None
            t.compress()                                   # fills the sibling's per-bond table with 1
        elif hist == "sibling-limit-raised":
            t.compress_config.bond_dim_max_value = 7
        elif hist == "sibling-threshold-lowered":
            t.compress_config.threshold = 1e-9
        elif hist == "sibling-threshold-raised":
            t.compress_config.threshold = 0.5
        else:
            t.compress_config.criteria = CompressCriteria.threshold
            t.compress_config.threshold = 0.5
    except Exception as e:
        return {"rejected": 1, "outcome": f"sibling-setup-refused:{type(e).__name__}"}
    now = (s.compress_config.criteria, s.compress_config.threshold, s.compress_config.bond_dim_max_value)
    if now != before:
        add("C05:config-history:settings-of-the-state-changed", f"{tag}: (criteria, threshold, limit) of the state went from {before} to {now} by writing into the sibling's settings")
    s.compress()
    phi = M.dense_of(s)
    bd = list(s.bond_dims)[1:-1]
    # reference: the same state with the same own settings and NO sibling at all
    r = _copy.deepcopy(s0)
    r.compress_config = CompressConfig(CompressCriteria.fixed, max_bonddim=3) if own_fixed else \
        CompressConfig(CompressCriteria.threshold, threshold=(0.3 if hist == "sibling-threshold-lowered" else 1e-9))
    r.compress()
    bd_ref = list(r.bond_dims)[1:-1]
    if bd != bd_ref or not close(phi, M.dense_of(r), 1e-10):
        add("C05:config-history:result-depends-on-sibling", f"{tag}: bond dims {bd} (distance to the original {np.linalg.norm(psi - phi):.4e}); without a sibling the same settings give {bd_ref} ({np.linalg.norm(psi - M.dense_of(r)):.4e})")
    if own_fixed:
        if any(b_ > 3 for b_ in bd):
            add("C05:config-history:limit-exceeded", f"{tag}: own limit 3, bond dims {bd}")
        up = np.sqrt(sum(np.sum(sp[3:] ** 2) for sp in spectra))
        if np.linalg.norm(psi - phi) > up + 1e-9 * norm:
            add("C05:config-history:over-truncated", f"{tag}: own limit 3, bond dims {bd}: distance {np.linalg.norm(psi - phi):.4e} > {up:.4e}")
    return {"nontrivial": True, "counters": {"compressions": 2}, "outcome": f"config-history:{'viol' if viol else 'ok'}", "viol": list(viol.values()), "sample": {"desc": desc, "bond_dims": bd}}


OWN_HISTORIES = ["fixed-then-threshold", "both-then-threshold", "copy-of-limited-then-threshold", "sum-of-limited-then-threshold", "expanded-then-threshold",
                 "threshold-then-fixed", "fixed-then-larger-fixed"]


def run_own_history(desc, seed):
    """the truncation settings object of ONE state used for several compressions in a row (its per-bond table is filled lazily by the first one,
    or by an expansion, and is copied to derived states): a later compression under a different criterion / limit must behave exactly like
    the same compression with a fresh settings object on the same tensors (differential), and keep the threshold count at the first cut."""
    import copy as _copy
    from renormalizer.utils import CompressConfig, CompressCriteria
    ch = Chain("spin", 6, seed)
    s = ch.random_mps([0], 8, "c05own", cplx=False)
    hist, thr, direction = desc["history"], desc["threshold"], desc["dir"]
    viol = {}
    tag = f"[own settings history {hist}, then threshold {thr}, sweep {direction}]"

    def add(sig, msg):
        if sig not in viol:
            viol[sig] = {"sig": sig, "msg": msg}

    def gauge(z):
        if direction == "L":
            z.ensure_left_canonical()
        else:
            z.ensure_right_canonical()
        return z
    try:
        if hist in ("fixed-then-threshold", "both-then-threshold", "threshold-then-fixed", "fixed-then-larger-fixed"):
            if hist == "threshold-then-fixed":
                s.compress_config = CompressConfig(CompressCriteria.threshold, threshold=1e-12)
            elif hist == "both-then-threshold":
                s.compress_config = CompressConfig(CompressCriteria.both, threshold=1e-12, max_bonddim=16)
            else:
                s.compress_config = CompressConfig(CompressCriteria.fixed, max_bonddim=16 if hist == "fixed-then-threshold" else 2)
            gauge(s).compress()
        elif hist in ("copy-of-limited-then-threshold", "sum-of-limited-then-threshold"):
            s.compress_config = CompressConfig(CompressCriteria.fixed, max_bonddim=4)
            gauge(s).compress()
            s = s.copy() if hist.startswith("copy") else s.add(s.scale(0.5))
        else:
            s.compress_config = CompressConfig(CompressCriteria.fixed, max_bonddim=3)
            gauge(s).compress()
            s.compress_config = CompressConfig(CompressCriteria.fixed, max_bonddim=6)      # expansion target
            s = s.expand_bond_dimension(ch.mpo_neutral(), coef=1e-2)
    except Exception as e:
        return {"rejected": 1, "outcome": f"history-refused:{type(e).__name__}"}
    # second compression on the SAME settings object, criterion switched by attribute assignment
    gauge(s)
    r = _copy.deepcopy(s)
    if hist == "threshold-then-fixed":
        s.compress_config.criteria = CompressCriteria.fixed
        s.compress_config.bond_dim_max_value = 2
        s.compress_config.max_dims = None
        r.compress_config = CompressConfig(CompressCriteria.fixed, max_bonddim=2)
    elif hist == "fixed-then-larger-fixed":
        s.compress_config.bond_dim_max_value = 3
        s.compress_config.max_dims = None
        r.compress_config = CompressConfig(CompressCriteria.fixed, max_bonddim=3)
    else:
        s.compress_config.criteria = CompressCriteria.threshold
        s.compress_config.threshold = thr
        r.compress_config = CompressConfig(CompressCriteria.threshold, threshold=thr)
    psi = M.dense_of(s)
    dims = ch.dims
    try:
        s.compress()
        r.compress()
    except Exception as e:
        add(f"C05:own-history:exception:{type(e).__name__}", f"{tag}: {e!r}")
        return {"nontrivial": True, "outcome": "own-history:viol", "viol": list(viol.values())}
    bd, bd_ref = list(s.bond_dims)[1:-1], list(r.bond_dims)[1:-1]
    phi = M.dense_of(s)
    if bd != bd_ref or not close(phi, M.dense_of(r), 1e-10):
        add(f"C05:own-history:differs-from-fresh-settings:{hist}", f"{tag}: bond dims {bd} (distance to the original {np.linalg.norm(psi - phi):.4e}); the same tensors with a fresh settings object give {bd_ref} ({np.linalg.norm(psi - M.dense_of(r)):.4e})")
    if "then-threshold" in hist:
        cut = len(dims) - 1 if direction == "L" else 1
        sv = np.linalg.svd(psi.reshape(int(np.prod(dims[:cut])), -1), compute_uv=False)
        nz = sv / np.linalg.norm(sv)
        if not np.any(np.abs(nz - thr) < 1e-6 * thr):
            want = int(np.sum(nz > thr))
            got = bd[cut - 1]
            if got != want:
                add(f"C05:own-history:threshold-count:{hist}", f"{tag}: kept {got} states at the first cut, {want} normalised singular values exceed {thr}; bond dims {bd}")
    return {"nontrivial": True, "counters": {"compressions": 3}, "outcome": f"own-history:{'viol' if viol else 'ok'}", "viol": list(viol.values()), "sample": {"desc": desc, "bond_dims": bd}}


def run_case(desc, seed):
    if desc["k"] == "own-config-history":
        return run_own_history(desc, seed)
    if desc["k"] == "config-history":
        return run_config_history(desc, seed)
    if desc["k"] == "chain":
        return run_chain(desc, seed)
    from mc import trees
    return trees.run_c05_tree(desc, seed)
