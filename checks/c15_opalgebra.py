"""C15 -- symbolic operator algebra is a faithful homomorphism.   (E1 over programs)

All expression trees up to depth d over atoms (single-site, multi-site, repeated degree of freedom, identity, identity
inside a product, one- and two-component labels) and scalars (int, float, complex, numpy float/int, 0) with the public
operators  + - * / unary-  +=  on the left and on the right, OpSum.product / Op.product, simplify(atol),
squeeze_identity and Model.check_operator_terms.  At every node:  dense(lib(e1 o e2)) == dense(lib(e1)) o dense(lib(e2)).
simplify(atol) may change the dense operator by at most atol x (number of input terms) in spectral norm... (see RULE).
Equality / hashing consistency is checked over all pairs of the generated Op objects.
"""
import itertools

import numpy as np

from mc import env  # noqa: F401
from mc.ref.dense import close, rel_err, kron_all

ID = "C15"
LEVEL = "exploration"
RULE = ("one case = one left operand (atom, scalar or depth-1 expression) combined with EVERY right operand and every operator, on both sides; "
        "non-trivial = at least one accepted combination whose dense value is non-zero; distinct = distinct left operand descriptor (the number of "
        "accepted combinations is in counters.accepted_nodes).  simplify(atol): ||dense(before) - dense(after)||_2 <= atol * (number of distinct "
        "terms dropped), and with atol = 0 the operator is unchanged to rounding.")
ASSUMPTIONS = [
    "dense evaluator: per site the symbols of a term are multiplied in the written order (BasisHalfSpin / BasisSHO local matrices, C16), sites combined with np.kron",
    "an expression the library refuses with TypeError / AssertionError / ValueError carrying its own message is 'not accepted' (counted as rejected)",
    "scalar e is identified with e * identity when it appears as a summand in the dense algebra (only Op + 0 is accepted by the library)",
]
HORIZON_S = 300
TOL = 1e-10


def BOUND(tier):
    return {"depth": 2 if tier == "quick" else 3, "families": ["one-component labels", "two-component labels"],
            "depth3": "right operands restricted to atoms, scalars and 12 depth-1 expressions" if tier != "quick" else None}


# ------------------------------------------------------------------------------------------------ model + dense evaluator

class Fam:
    def __init__(self, name):
        from renormalizer.model import basis as ba, Model
        self.name = name
        if name == "one":
            self.basis = [ba.BasisHalfSpin("a", sigmaqn=[0, 1]), ba.BasisHalfSpin("b", sigmaqn=[0, 1]), ba.BasisSHO("c", 1.1, 2)]
            self.qz = 0
        else:
            self.basis = [ba.BasisHalfSpin("a", sigmaqn=[[0, 0], [1, 0]]), ba.BasisHalfSpin("b", sigmaqn=[[0, 0], [0, 1]]),
                          ba.BasisHalfSpin("c", sigmaqn=[[0, 0], [1, 0]])]
            self.qz = [0, 0]
        self.model = Model(list(self.basis), [])
        self.site = {"a": 0, "b": 1, "c": 2}
        self.dims = [b.nbas for b in self.basis]
        self.D = int(np.prod(self.dims))

    def atoms(self):
        from renormalizer.model import Op
        two = self.name == "two"
        def q(*vals):
            # vals are one-component charges; lift to two components when needed
            if two:
                return [[v, 0] for v in vals]
            return list(vals)
        third = "sigma_z" if two else "x"
        A = [
            Op("sigma_x", "a", 1.0, q(0)),
            Op("sigma_+", "b", 0.5, q(-1)),
            Op(third, "c", 2.0, q(0)),
            Op("sigma_x sigma_z", ["a", "b"], 1.5, q(0, 0)),
            Op("sigma_z sigma_x", ["a", "a"], -1.0, q(0, 0)),                 # repeated dof: order matters (ZX = -XZ)
            Op("sigma_- sigma_x sigma_+", ["b", "a", "b"], 0.7, q(1, 0, -1)),   # interleaved sites
            Op.identity("b", qn_size=2 if two else 1),
            Op("sigma_x I " + third, ["a", "b", "c"], 0.3, q(0, 0, 0)),        # identity inside a product
            Op("I I", ["a", "c"], -2.0, q(0, 0)),
        ]
        return A

    def dense_op(self, op):
        per = {}
        for sym, dof in zip(op.split_symbol, op.dofs):
            per.setdefault(self.site[dof], []).append(sym)
        mats = [np.eye(d, dtype=complex) for d in self.dims]
        for s, syms in per.items():
            m = np.eye(self.dims[s], dtype=complex)
            for sy in syms:
                m = m @ np.asarray(self.basis[s].op_mat(sy), dtype=complex)
            mats[s] = m
        return op.factor * kron_all(mats)

    def dense(self, v):
        from renormalizer.model import Op
        if isinstance(v, Op):
            return self.dense_op(v)
        if isinstance(v, list):
            out = np.zeros((self.D, self.D), dtype=complex)
            for o in v:
                if not isinstance(o, Op):
                    raise NotOperator(f"list element {type(o)}")
                out = out + self.dense_op(o)
            return out
        if isinstance(v, (int, float, complex, np.generic)):
            return complex(v) * np.eye(self.D)
        raise NotOperator(str(type(v)))


class NotOperator(Exception):
    pass


def agree(got, ref, *operands):
    """|got - ref| <= 1e-10 * scale, scale = the size of the operands that produced ref (so exact cancellations are not
    compared relative to their own rounding noise)"""
    scale = max([1.0] + [float(np.linalg.norm(o)) for o in operands] + [float(np.linalg.norm(ref))])
    if len(operands) == 2:
        scale = max(scale, float(np.linalg.norm(operands[0]) * np.linalg.norm(operands[1])))
    return float(np.linalg.norm(got - ref)) <= 1e-10 * scale


SCALARS = [2, 0.5, 1j, np.float64(1.5), np.int64(3), 0, -1.0, 0.0, 1, np.float64(1.0)]      # incl. the neutral elements 0 and 1
ACCEPTED_EXC = (TypeError, AssertionError, ZeroDivisionError, FloatingPointError, OverflowError)


def library_refusal(e):
    if isinstance(e, ACCEPTED_EXC):
        return True
    if isinstance(e, ValueError):
        msg = str(e)
        return "truth value" not in msg
    return False


BINOPS = ["+", "-", "*", "/"]


def apply_bin(o, x, y):
    if o == "+":
        return x + y
    if o == "-":
        return x - y
    if o == "*":
        return x * y
    if o == "/":
        return x / y
    raise ValueError(o)


def dense_bin(o, dx, dy, y_is_scalar, yval):
    if o == "+":
        return dx + dy
    if o == "-":
        return dx - dy
    if o == "*":
        return dx @ dy
    if o == "/":
        return dx / complex(yval)
    raise ValueError(o)


def operands(fam, tier):
    """level-0 operands and a list of depth-1 expressions built from them (as (descriptor, value) pairs)"""
    A = fam.atoms()
    lv0 = [(("atom", i), a) for i, a in enumerate(A)] + [(("scalar", i), s) for i, s in enumerate(SCALARS)]
    lv1 = []
    for (d1, v1), (d2, v2) in itertools.product(lv0, repeat=2):
        for o in BINOPS:
            try:
                r = apply_bin(o, v1, v2)
            except Exception:
                continue
            if isinstance(r, (int, float, complex, np.generic)):
                continue
            lv1.append(((o, d1, d2), r))
    # unary and method forms
    for d, v in lv0[:len(A)]:
        lv1.append((("neg", d), -v))
    # plain python lists of operators (the library accepts them wherever it accepts an OpSum: Op.__rmul__/__radd__ ... take a list)
    from renormalizer.model import OpSum
    plain = []
    for d, v in lv1:
        if isinstance(v, OpSum) and len(v) >= 2 and d[0] in ("+", "-"):
            plain.append((("plain-list", d), list(v)))
    lv1.extend(plain[::3])
    return lv0, lv1


def cases(tier, seed):
    for famname in ("one", "two"):
        fam = Fam(famname)
        lv0, lv1 = operands(fam, tier)
        for i in range(len(lv0)):
            yield {"fam": famname, "left": ["lv0", i]}
        for i in range(len(lv1)):
            yield {"fam": famname, "left": ["lv1", i]}
        yield {"fam": famname, "left": ["special", "eqhash"]}
        yield {"fam": famname, "left": ["special", "methods"]}
        yield {"fam": famname, "left": ["special", "simplify-multiplicity"]}
        if tier != "quick":
            # depth 3: (depth-1 o depth-1) o atom/scalar
            for i in range(0, len(lv1), 1):
                yield {"fam": famname, "left": ["lv2", i]}


_CACHE = {}


def get(famname, tier):
    if famname not in _CACHE:
        fam = Fam(famname)
        _CACHE[famname] = (fam,) + operands(fam, tier)
    return _CACHE[famname]


def run_case(desc, seed):
    from renormalizer.model import Op, OpSum
    fam, lv0, lv1 = get(desc["fam"], "quick")
    kind, idx = desc["left"]
    viol = {}
    counters = {"accepted_nodes": 0, "rejected_nodes": 0}
    nonzero = [False]

    def add(sig, msg):
        if sig not in viol:
            viol[sig] = {"sig": sig, "msg": msg}

    def typename(v):
        if isinstance(v, Op):
            return "Op"
        if isinstance(v, OpSum):
            return "OpSum"
        if isinstance(v, list):
            return "list"
        if isinstance(v, np.generic):
            return "npscalar"
        return "scalar"

    def node(o, d1, v1, d2, v2):
        """evaluate v1 o v2 in the library and compare with the dense algebra"""
        try:
            r = apply_bin(o, v1, v2)
        except Exception as e:
            if library_refusal(e):
                counters["rejected_nodes"] += 1
                return None
            add(f"C15:exception:{type(e).__name__}:{typename(v1)}{o}{typename(v2)}", f"[{fam.name}] {d1} {o} {d2} raised {e!r}")
            return None
        if isinstance(v1, (int, float, complex, np.generic)) and isinstance(v2, (int, float, complex, np.generic)):
            return None
        try:
            dr = fam.dense(r)
            dx, dy = fam.dense(v1), fam.dense(v2)
        except NotOperator as e:
            add(f"C15:not-an-operator:{typename(v1)}{o}{typename(v2)}", f"[{fam.name}] {d1} {o} {d2} evaluates to {type(r)} ({e})")
            return None
        ref = dense_bin(o, dx, dy, isinstance(v2, (int, float, complex, np.generic)), v2)
        counters["accepted_nodes"] += 1
        if np.abs(ref).max() > 0:
            nonzero[0] = True
        if not agree(dr, ref, dx, dy):
            add(f"C15:homomorphism:{typename(v1)}{o}{typename(v2)}", f"[{fam.name}] dense({d1} {o} {d2}) differs from dense({d1}) {o} dense({d2}) by rel {rel_err(dr, ref):.2e}; lib value {r}")
        # history: the result is a NEW expression -- extending it in place (+=, append) must leave both operands denoting what they denoted
        if isinstance(r, OpSum) and (isinstance(v1, list) or isinstance(v2, list)):
            try:
                extra = fam.atoms()[0]
                r += extra
                r.append(extra * 2)
            except Exception:
                return r
            for dd, vv, dv in ((d1, v1, dx), (d2, v2, dy)):
                if isinstance(vv, list):
                    try:
                        now = fam.dense(vv)
                    except NotOperator:
                        continue
                    if not agree(now, dv, dv):
                        add(f"C15:result-aliases-operand:{typename(v1)}{o}{typename(v2)}", f"[{fam.name}] after r = {d1} {o} {d2}; r += A; r.append(2A) the operand {dd} denotes a different operator (changed by rel {rel_err(now, dv):.2e})")
                        # repair the operand so that later nodes of this case are not polluted
                        del vv[-2:]
        return r

    if kind in ("lv0", "lv1"):
        d1, v1 = (lv0 if kind == "lv0" else lv1)[idx]
        rights = lv0 + (lv1[::7] if kind == "lv1" else lv1[::3])
        for d2, v2 in rights:
            for o in BINOPS:
                node(o, d1, v1, d2, v2)
                node(o, d2, v2, d1, v1)
        # in-place addition
        for d2, v2 in lv0 + lv1[::11]:
            if isinstance(v1, list) and isinstance(v2, (Op, list)):
                acc = OpSum(list(v1))
                before = fam.dense(acc)
                try:
                    acc2 = acc
                    acc2 += v2
                except Exception as e:
                    if not library_refusal(e):
                        add(f"C15:exception:{type(e).__name__}:iadd", f"[{fam.name}] {d1} += {d2} raised {e!r}")
                    continue
                counters["accepted_nodes"] += 1
                if acc2 is not acc:
                    add("C15:iadd:not-in-place", f"[{fam.name}] {d1} += {d2} rebinds instead of extending")
                if not agree(fam.dense(acc2), before + fam.dense(v2), before, fam.dense(v2)):
                    add("C15:homomorphism:iadd", f"[{fam.name}] {d1} += {d2}")
                if len(v1) != len(list(v1)):
                    pass
        # unary minus, simplify, squeeze_identity, check_operator_terms on the left operand itself
        if not isinstance(v1, (int, float, complex, np.generic)):
            try:
                neg = -v1
                if not close(fam.dense(neg), -fam.dense(v1), TOL, floor=1e-12):
                    add("C15:homomorphism:neg", f"[{fam.name}] -({d1})")
                counters["accepted_nodes"] += 1
            except Exception as e:
                if not library_refusal(e):
                    add(f"C15:exception:{type(e).__name__}:neg", f"[{fam.name}] -({d1}) raised {e!r}")
            terms = [v1] if isinstance(v1, Op) else list(v1)
            for op in terms:
                try:
                    sq = op.squeeze_identity()
                    counters["accepted_nodes"] += 1
                    if not close(fam.dense(sq), fam.dense(op), TOL, floor=1e-12):
                        add("C15:squeeze_identity:changes-operator", f"[{fam.name}] {op}.squeeze_identity() = {sq}")
                    if "I" in sq.split_symbol and not sq.is_identity:
                        add("C15:squeeze_identity:identity-left", f"[{fam.name}] {op}.squeeze_identity() = {sq}")
                except Exception as e:
                    cls = "two-component" if fam.name == "two" else "one-component"
                    if not library_refusal(e):
                        add(f"C15:exception:{type(e).__name__}:squeeze_identity:{cls}", f"[{fam.name}] {op}.squeeze_identity() raised {e!r}")
            for atol in (0, 1e-3, 0.6):
                s0 = OpSum(terms)
                try:
                    s1 = s0.simplify(atol=atol)
                except Exception as e:
                    cls = "two-component" if fam.name == "two" else "one-component"
                    if not library_refusal(e):
                        add(f"C15:exception:{type(e).__name__}:simplify:{cls}", f"[{fam.name}] OpSum({terms}).simplify(atol={atol}) raised {e!r}")
                    continue
                counters["accepted_nodes"] += 1
                # documented semantics: merge equal terms first, then drop merged terms with |factor| <= atol.  Independent
                # grouping by (symbol, dof) pairs with identity factors removed:
                groups = {}
                for t in terms:
                    key = tuple((sy, repr(df)) for sy, df in zip(t.split_symbol, t.dofs) if sy != "I")
                    g = groups.setdefault(key, [0.0, t])
                    g[0] = g[0] + t.factor
                exp = np.zeros((fam.D, fam.D), dtype=complex)
                nkept = 0
                for key, (fsum, t) in groups.items():
                    if abs(fsum) > atol:
                        exp = exp + fsum * fam.dense_op(Op(t.symbol, t.dofs, 1.0, t.qn_list))
                        nkept += 1
                if not agree(fam.dense(s1), exp, fam.dense(s0)):
                    add("C15:simplify:not-merge-then-drop", f"[{fam.name}] simplify(atol={atol}) of {terms} gives {s1}: differs from 'merge equal terms, then drop |factor|<=atol' by {np.linalg.norm(fam.dense(s1) - exp):.3e}")
                diff = np.linalg.norm(fam.dense(s1) - fam.dense(s0), 2)
                ndrop = len(groups) - nkept
                # every dropped (merged) term has |factor| <= atol and every local matrix has spectral norm <= c_op
                cmax = max([np.linalg.norm(fam.dense_op(Op(t.symbol, t.dofs, 1.0, t.qn_list)), 2) for t in terms] + [1.0])
                if diff > atol * ndrop * cmax + 1e-10:
                    add("C15:simplify:beyond-tolerance", f"[{fam.name}] simplify(atol={atol}) of {terms} changes the operator by {diff:.3e} > {atol}*{ndrop}*{cmax:.2f}; result {s1}")
                # merged terms: no two terms of the result are the same term
                for a, b in itertools.combinations(list(s1), 2):
                    if a.same_term(b):
                        add("C15:simplify:not-merged", f"[{fam.name}] simplify left two equal terms {a}, {b}")
            try:
                chk = fam.model.check_operator_terms(terms if isinstance(v1, Op) else [OpSum(terms)])
                counters["accepted_nodes"] += 1
                if not close(fam.dense(chk), fam.dense(v1), TOL, floor=1e-12):
                    add("C15:check_operator_terms:changes-operator", f"[{fam.name}] check_operator_terms({d1})")
                if any(t.factor == 0 for t in chk):
                    add("C15:check_operator_terms:zero-kept", f"[{fam.name}] zero-factor term kept")
            except Exception as e:
                if not library_refusal(e):
                    add(f"C15:exception:{type(e).__name__}:check_operator_terms", f"[{fam.name}] check_operator_terms({d1}) raised {e!r}")
    elif kind == "lv2":
        d1, v1 = lv1[idx]
        for d2, v2 in lv1[idx % 5::5][:12]:
            for o in BINOPS:
                r = node(o, d1, v1, d2, v2)
                if r is None or isinstance(r, (int, float, complex, np.generic)):
                    continue
                dr = (o, d1, d2)
                for d3, v3 in lv0:
                    for o2 in BINOPS:
                        node(o2, dr, r, d3, v3)
                        node(o2, d3, v3, dr, r)
    elif idx == "methods":
        A = fam.atoms()
        for k in (1, 2, 3):
            for combo in itertools.product(range(len(A)), repeat=k):
                if k == 3 and (sum(combo) % 4):
                    continue
                ops = [A[i] for i in combo]
                p = Op.product(ops)
                ref = np.eye(fam.D, dtype=complex)
                for o in ops:
                    ref = ref @ fam.dense(o)
                counters["accepted_nodes"] += 1
                nonzero[0] = True
                if not close(fam.dense(p), ref, TOL, floor=1e-12):
                    add("C15:homomorphism:Op.product", f"[{fam.name}] Op.product({ops}) = {p}")
                sums = [OpSum([A[i], A[(i + 1) % len(A)]]) for i in combo]
                ps = OpSum.product(sums)
                ref = np.eye(fam.D, dtype=complex)
                for s_ in sums:
                    ref = ref @ fam.dense(s_)
                if not close(fam.dense(ps), ref, TOL, floor=1e-12):
                    add("C15:homomorphism:OpSum.product", f"[{fam.name}] OpSum.product over {combo}")
        # the product over a one-element list is still a NEW expression: extending it in place must leave the operand untouched
        for i in range(len(A)):
            s_ = OpSum([A[i], A[(i + 1) % len(A)]])
            before = fam.dense(s_)
            ps = OpSum.product([s_])
            try:
                ps += A[0]
                ps.append(A[0] * 2)
            except Exception:
                continue
            counters["accepted_nodes"] += 1
            if len(s_) != 2 or not close(fam.dense(s_), before, TOL, floor=1e-12):
                add("C15:result-aliases-operand:OpSum.product-of-one", f"[{fam.name}] after r = OpSum.product([s]); r += A; r.append(2A) the operand s has {len(s_)} terms / denotes a different operator")
        if len(OpSum.product([])) != 0:
            add("C15:OpSum.product:empty", "product of nothing is not the empty sum")
        # split_elementary: the product of the elementary operators times the factor is the operator
        for a in A:
            el, f = a.split_elementary(fam.site)
            ref = np.eye(fam.D, dtype=complex) * f
            for e_ in el:
                ref = ref @ fam.dense(e_)
            counters["accepted_nodes"] += 1
            if not close(ref, fam.dense(a), TOL, floor=1e-12):
                add("C15:split_elementary", f"[{fam.name}] {a} -> {el}, {f}")
    elif idx == "simplify-multiplicity":
        # sums in which the same term occurs up to five times, in every position: every word of length <= 5 over a small alphabet of
        # terms, two of which are the same term after identity removal
        A = fam.atoms()
        X, Y, Z = A[0], A[1], A[2]
        other = [d for b in fam.basis for d in b.dofs if d not in X.dofs][0]
        Xp = X * Op("I", other) * 0.5            # the same term as X once identities are squeezed out
        alpha = [X, Y, Z, Xp]
        for L in range(1, 6):
            for word in itertools.product(range(4), repeat=L):
                if max(word.count(k) for k in range(4)) + (word.count(0) + word.count(3) - max(word.count(0), word.count(3))) < 3 and L > 3:
                    continue         # long words without a triple add nothing new
                terms = [alpha[k] for k in word]
                before = sum(fam.dense(t) for t in terms)
                for atol in (0, 0.6):
                    try:
                        s1 = OpSum(list(terms)).simplify(atol=atol)
                    except Exception as e:
                        if not library_refusal(e):
                            add(f"C15:exception:{type(e).__name__}:simplify:repeated-terms", f"[{fam.name}] OpSum of word {word} over (X, Y, Z, X*I/2).simplify(atol={atol}) raised {e!r}")
                        else:
                            add(f"C15:simplify:refuses-repeated-terms:{type(e).__name__}", f"[{fam.name}] OpSum of word {word} over (X, Y, Z, X*I/2).simplify(atol={atol}) raised {e!r}")
                        continue
                    counters["accepted_nodes"] += 1
                    groups = {}
                    for t in terms:
                        key = tuple((sy, repr(df)) for sy, df in zip(t.split_symbol, t.dofs) if sy != "I")
                        g = groups.setdefault(key, [0.0, t])
                        g[0] = g[0] + t.factor
                    exp = np.zeros((fam.D, fam.D), dtype=complex)
                    for key, (f, t) in groups.items():
                        if abs(f) > atol:
                            exp = exp + fam.dense(t) / t.factor * f
                    if not agree(fam.dense(s1), exp, before):
                        add("C15:simplify:repeated-terms", f"[{fam.name}] simplify(atol={atol}) of the word {word} over (X, Y, Z, X*I/2) gives {s1}: differs from 'merge equal terms, then drop' by {np.linalg.norm(fam.dense(s1) - exp):.3e}")
                    keys = [tuple((sy, repr(df)) for sy, df in zip(t.split_symbol, t.dofs) if sy != "I") for t in s1]
                    if len(keys) != len(set(keys)):
                        add("C15:simplify:not-merged", f"[{fam.name}] simplify of the word {word} left equal terms: {s1}")
        nonzero[0] = True
    elif idx == "eqhash":
        ops = []
        for d, v in lv0 + lv1:
            if isinstance(v, Op):
                ops.append(v)
            elif isinstance(v, list):
                ops.extend([o for o in v if isinstance(o, Op)])
        # equal-by-construction duplicates with different numeric types of the factor
        A = fam.atoms()
        ops += [Op(a.symbol, a.dofs, a.factor, a.qn_list) for a in A] + [Op(a.symbol, a.dofs, complex(a.factor), a.qn_list) for a in A] + \
               [Op(a.symbol, a.dofs, np.float64(a.factor), [np.array(q, dtype=np.int32) for q in a.qn_list]) for a in A]
        ops = ops[:400]
        # operators that differ ONLY in how the same total quantum number is distributed over their symbols
        redistributed = []
        for a in [o for o in ops if len(o.split_symbol) >= 2][:40]:
            for k in (1, -1, 2):
                ql = [np.array(q) for q in a.qn_list]
                ql[0] = ql[0] + k
                ql[-1] = ql[-1] - k
                try:
                    redistributed.append(Op(a.symbol, a.dofs, a.factor, ql))
                except Exception:
                    pass
        ops = ops + redistributed
        # operators DERIVED from an operand that has already been hashed (used as a dict key / set member), next to directly constructed
        # equals: whatever an operator caches about itself must not leak into what is derived from it
        from renormalizer.model import OpSum
        derived = []
        for a in A[:12]:
            _ = {a: 1}, hash(a)
            for c in (2, 2.0, -1, 0.5 + 0j, np.float64(3.0)):
                for mk in (lambda: a * c, lambda: c * a, lambda: (OpSum([a]) * c)[0], lambda: (c * OpSum([a]))[0], lambda: (OpSum([a]) / (1 / c))[0] if c != 0 else None):
                    try:
                        d = mk()
                    except Exception:
                        continue
                    if isinstance(d, Op):
                        derived.append(d)
                try:
                    derived.append(Op(a.symbol, a.dofs, a.factor * c, a.qn_list))
                except Exception:
                    pass
            try:
                derived.append(-a)
                derived.append(Op(a.symbol, a.dofs, -a.factor, a.qn_list))
            except Exception:
                pass
        ops = ops + derived
        for a in ops:
            if not (a == a):
                add("C15:eq:not-reflexive", f"{a}")
        for a, b in itertools.combinations(ops, 2):
            e1, e2 = (a == b), (b == a)
            counters["accepted_nodes"] += 1
            if e1 != e2:
                add("C15:eq:not-symmetric", f"{a} vs {b}")
            if e1 and hash(a) != hash(b):
                add("C15:eq-hash:inconsistent", f"{a!r} == {b!r} but hashes differ")
            if e1 and ((a in {b}) != (a in [b])):
                add("C15:eq-hash:set-vs-list-membership", f"{a!r} in [b] but not in {{b}} for b = {b!r}")
            if e1 and not close(fam.dense(a), fam.dense(b), TOL, floor=1e-12):
                add("C15:eq:different-operators", f"{a} == {b} but they denote different matrices")
        nonzero[0] = True
        if len({hash(o) for o in ops}) < 2:
            add("C15:hash:degenerate", "all hashes equal")
    return {"nontrivial": nonzero[0], "counters": counters, "rejected": counters["rejected_nodes"],
            "outcome": f"{kind}:{'viol' if viol else 'ok'}", "viol": list(viol.values()),
            "sample": {"desc": desc, "accepted": counters["accepted_nodes"], "rejected": counters["rejected_nodes"]}}
