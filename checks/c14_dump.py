"""C14 -- saved states reload identically and result dumps survive a crash.   (E1 + E3)

Round trip: every state kind (chain states real / complex, every gauge of the gauge alphabet, one / two label components,
density operators, operators; tree states on every plane tree) -> dump -> load: tensors bit-equal, prefactor, labels,
centre, direction and dtype equal; then canonicalise / compress / one evolve step / expectation on the original and on the
loaded object give identical results; with and without the spill-to-disk path (dump_matrix_size = 1 byte).

Crash: a minimal TdMpsJob subclass (real Mps.evolve, the real dump_dict, the real Mps.dump) runs 1..3 steps with
dump_mps in {None, "one", "all"} over the fault-injecting shim (mc/faults.py).  EVERY crash point is explored: before each
mutating file-system step and at four torn-write positions inside each write.  From every directory state left behind, a
fresh job is started and every crash point explored again -- BFS over abstract directory states
(result file, backup) in {absent, torn, complete}^2 to a fixpoint (concrete representatives are kept for replay).
Invariant: whenever the directory held a completely loadable result file before an operation (or a dump has been
acknowledged), at every crash instant it still holds a completely loadable result file whose content is the dictionary of
some completed dump.
"""
import itertools
import os
import shutil
import tempfile

import numpy as np

from mc import env  # noqa: F401
from mc import faults as F
from mc import machine as M
from mc import trees as TR
from mc.chains import Chain, sectors
from mc.space import plane_trees
from mc.ref.dense import close, rel_err

ID = "C14"
LEVEL = "fault_enumeration"
RULE = ("crash cases: one case = (dump_mps mode, number of steps) -- a BFS over abstract directory states in which EVERY (crash point, torn-write variant) of a job run is "
        "one execution; non-trivial execution = the crash happened while a result file existed or after an acknowledged dump (so the invariant is not vacuous); "
        "round-trip cases: one case = (family, n, sector, object kind, gauge history); non-trivial = object with a bond > 1. distinct_nontrivial counts crash executions "
        "that are non-trivial plus non-trivial round-trip cases.")
ASSUMPTIONS = [
    "crash model: the process stops before a mutating file-system call or inside a write after a prefix of the bytes; completed calls are durable; no reordering of unsynced data",
    "a result file counts as loadable only if numpy.load reads EVERY member (zip CRCs are checked) ",
    "bit-equality of tensors after load; identical results of later operations to 1e-12",
]
HORIZON_S = 600
JOB = "job"


def BOUND(tier):
    return {"crash": {"steps": [1, 2, 3], "dump_mps": [None, "one", "all"], "torn_variants": F.TORN_VARIANTS, "restart_depth": "to fixpoint of abstract directory states"},
            "roundtrip": {"families": ["elec", "two", "eph", "spin"], "n": "1..4" if tier == "quick" else "1..5", "gauges": "fresh / canonicalise / ensure_right / move_qnidx(mid) / to_complex / coeff",
                          "trees": "plane trees <= 4 nodes"}}


def cases(tier, seed):
    for dump_mps in (None, "one", "all"):
        for nsteps in (1, 2, 3):
            yield {"k": "crash", "dump_mps": dump_mps, "nsteps": nsteps}
    quick = tier == "quick"
    for fam, ns in (("elec", (1, 2, 3, 4)), ("two", (2, 3)), ("eph", (2, 3)), ("spin", (2, 3))):
        for n in ns if quick else tuple(ns) + (5,):
            if n == 5 and fam in ("two",):
                continue
            for sec in sectors(fam, n):
                for kind in ("mps", "mps-complex", "mpdm", "mpo"):
                    if kind == "mpo" and sec != sectors(fam, n)[0]:
                        continue
                    for gauge in ("fresh", "canonicalise", "ensure_right", "move_mid", "coeff", "added"):
                        if kind == "mpo" and gauge in ("ensure_right", "coeff", "move_mid"):
                            continue
                        for spill in (False, True):
                            if spill and gauge not in ("fresh", "canonicalise"):
                                continue
                            yield {"k": "roundtrip", "fam": fam, "n": n, "sector": sec, "kind": kind, "gauge": gauge, "spill": spill}
    for N in (1, 2, 3, 4):
        for parent in plane_trees(N):
            for cplx in (False, True):
                yield {"k": "roundtrip-tree", "parent": parent, "complex": cplx}
                yield {"k": "roundtrip-tree", "parent": parent, "complex": cplx, "user_attr": True}      # dump / load with an extra user attribute


# ------------------------------------------------------------------------------------------------ crash part

def make_job_class():
    from renormalizer.utils.tdmps import TdMpsJob
    from renormalizer.utils import EvolveConfig, EvolveMethod, CompressConfig, CompressCriteria

    class Job(TdMpsJob):
        def __init__(self, ch, dump_dir, dump_mps):
            self.ch = ch
            self.h = ch.mpo_neutral()
            self.obs = []
            super().__init__(evolve_config=EvolveConfig(EvolveMethod.tdvp_ps), dump_mps=dump_mps, dump_dir=dump_dir, job_name=JOB)

        def init_mps(self):
            m = self.ch.random_mps(sectors(self.ch.family, self.ch.n)[1], 4, "job")
            m.evolve_config = self.evolve_config
            m.compress_config = CompressConfig(CompressCriteria.fixed, max_bonddim=8)
            return m

        def process_mps(self, mps):
            self.obs.append(float(np.real(mps.expectation(self.h))))

        def evolve_single_step(self, dt):
            return self.latest_mps.evolve(self.h, dt)

        def get_dump_dict(self):
            return {"steps": len(self.evolve_times) - 1, "time series": list(self.evolve_times), "energies": list(self.obs)}

    return Job


def run_job(ch, d, dump_mps, nsteps, inj):
    """returns (acked_steps, completed_payloads, crashed?)"""
    Job = make_job_class()
    acked = []
    crashed = False
    try:
        with F.injected(inj):
            job = Job(ch, d, dump_mps)
            orig = job.dump_dict

            def dd():
                orig()
                acked.append(len(job.evolve_times) - 1)
            job.dump_dict = dd
            job.evolve(0.05, nsteps)
    except F.Crash:
        crashed = True
    return acked, crashed


def dir_state(d):
    a = F.classify(os.path.join(d, JOB + ".npz"))
    b = F.classify(os.path.join(d, JOB + ".npz.bak"))
    others = sorted(fn for fn in os.listdir(d) if fn not in (JOB + ".npz", JOB + ".npz.bak"))
    return a, b, others


def abstract(st):
    return (st[0][0], st[1][0])


def valid_payload(data):
    """a completely loaded result dictionary is valid when it is internally consistent with a completed dump of the job class"""
    try:
        steps = int(data["steps"])
        return len(data["time series"]) == steps + 1 and len(data["energies"]) == steps + 1
    except Exception:
        return False


def run_crash(desc, seed):
    ch = Chain("elec", 3, seed)
    dump_mps, nsteps = desc["dump_mps"], desc["nsteps"]
    root = tempfile.mkdtemp(prefix="c14_")
    viol = {}
    executions = 0
    nontriv = 0
    seen = {}
    transitions = 0
    try:
        start = {}
        frontier = [("empty", start, [])]          # (abstract key, dir snapshot, history)
        seen[("absent", "absent")] = start
        # besides the states reachable from an empty directory, every abstract directory state is also used as a start
        # (a directory may have been left behind by an earlier crash of any version of the protocol): the files are made
        # from a completed run (complete), its first half (torn) or nothing (absent)
        d0 = os.path.join(root, "seed")
        os.makedirs(d0)
        run_job(ch, d0, None, 2, F.Injector(None))
        with open(os.path.join(d0, JOB + ".npz"), "rb") as f:
            good = f.read()
        for a in ("absent", "torn", "complete"):
            for b in ("absent", "torn", "complete"):
                if (a, b) == ("absent", "absent"):
                    continue
                snap = {}
                if a != "absent":
                    snap[JOB + ".npz"] = good if a == "complete" else good[: len(good) // 2]
                if b != "absent":
                    snap[JOB + ".npz.bak"] = good if b == "complete" else good[: len(good) // 2]
                seen[(a, b)] = snap
                frontier.append((f"{a}+{b}", snap, [f"synthetic[{a},{b}]"]))
        level = 0
        while frontier and level < 6:
            nxt = []
            for key, snap, hist in frontier:
                # how many mutating steps does an un-crashed run from this directory have?
                d = os.path.join(root, "w")
                F.restore_dir(d, snap)
                inj0 = F.Injector(None)
                acked0, _ = run_job(ch, d, dump_mps, nsteps, inj0)
                nops = inj0.count
                ops = list(inj0.log)
                transitions += 1
                fin = dir_state(d)
                if fin[0][0] != "complete" or not valid_payload(fin[0][1]) or int(fin[0][1]["steps"]) != nsteps:
                    add(viol, "C14:no-crash:final-file", f"history {hist}: an un-crashed job of {nsteps} steps does not leave a complete result file of its last step: {abstract(fin)}")
                had_loadable_before = any(F.classify(os.path.join(d0, fn))[0] == "complete" for d0, fn in ())
                for k in range(nops):
                    variants = F.TORN_VARIANTS if ops[k][0] == "savez" else ["before"]
                    for var in variants:
                        F.restore_dir(d, snap)
                        pre = dir_state(d)
                        pre_loadable = (pre[0][0] == "complete" and valid_payload(pre[0][1])) or (pre[1][0] == "complete" and valid_payload(pre[1][1]))
                        inj = F.Injector(k, var)
                        acked, crashed = run_job(ch, d, dump_mps, nsteps, inj)
                        executions += 1
                        transitions += 1
                        if not crashed:
                            add(viol, "C14:harness:crash-point-not-reached", f"crash point {k} ({ops[k]}) was not reached on replay: file-system steps are not deterministic")
                            continue
                        post = dir_state(d)
                        loadable = [s for s in post[:2] if s[0] == "complete" and valid_payload(s[1])]
                        must_hold = pre_loadable or len(acked) > 0
                        if must_hold:
                            nontriv += 1
                            if not loadable:
                                add(viol, f"C14:crash:no-loadable-result:{'restart' if hist else 'first-run'}:{key}",
                                    f"directory before the job: {key}; history {hist}; crash {var} at step {k} {ops[k][:2]} (after {len(acked)} acknowledged dumps): "
                                    f"left (result, backup) = {abstract(post)} -- no completely loadable result file remains")
                            elif acked:
                                # the surviving content must be the current or the previous acknowledged step (or the step being written)
                                steps_found = sorted(int(s[1]["steps"]) for s in loadable)
                                if max(steps_found) < acked[-1] - 1 and not pre_loadable:
                                    add(viol, "C14:crash:stale-result", f"history {hist}: crash {var} at {ops[k][:2]} after acknowledging step {acked[-1]}: surviving steps {steps_found}")
                        ak = abstract(post)
                        if ak not in seen:
                            seen[ak] = F.snapshot_dir(d)
                            nxt.append((f"{ak[0]}+{ak[1]}", seen[ak], hist + [f"crash[{var}@{ops[k][0]}#{k}]"]))
            frontier = nxt
            level += 1
    finally:
        shutil.rmtree(root, ignore_errors=True)
    return {"nt_count": nontriv, "eval_count": executions, "counters": {"crash_executions": executions, "abstract_directory_states": len(seen), "bfs_levels": level},
            "states": len(seen), "transitions": transitions, "outcome": f"crash:{dump_mps}:{nsteps}:{'viol' if viol else 'ok'}",
            "viol": list(viol.values()), "sample": {"desc": desc, "directory_states": [list(k) for k in seen], "crash_executions": executions}}


def add(viol, sig, msg):
    if sig not in viol:
        viol[sig] = {"sig": sig, "msg": msg}


# ------------------------------------------------------------------------------------------------ round trip

def build_obj(desc, seed):
    from renormalizer.mps import MpDm
    from renormalizer.utils import CompressConfig, CompressCriteria
    ch = Chain(desc["fam"], desc["n"], seed)
    kind, gauge = desc["kind"], desc["gauge"]
    if kind == "mpo":
        o = ch.mpo_neutral()
    else:
        o = ch.random_mps(desc["sector"], 4 if desc["fam"] != "two" else 8, "rt", cplx=(kind == "mps-complex"))
        if kind == "mpdm":
            o = ch.mpo_neutral().apply(MpDm.from_mps(o))
    if desc["spill"]:
        d = tempfile.mkdtemp(prefix="c14spill_")
        o.compress_config = CompressConfig(CompressCriteria.fixed, max_bonddim=64, dump_matrix_size=1, dump_matrix_dir=d)
        # re-assign the tensors so that the spill path is taken
        for i in range(o.site_num):
            o[i] = np.asarray(o[i].array)
    if gauge == "canonicalise":
        o.canonicalise()
    elif gauge == "ensure_right":
        o.ensure_right_canonical()
    elif gauge == "move_mid":
        o.move_qnidx(o.site_num // 2)
    elif gauge == "coeff":
        o.coeff = 0.3 - 0.4j
    elif gauge == "added":
        try:
            o = o.add(o.scale(0.5))
        except AssertionError:
            raise Skip()
    return ch, o


class Skip(Exception):
    pass


def run_roundtrip(desc, seed):
    from renormalizer.mps import Mps, Mpo, MpDm
    viol = {}
    try:
        ch, o = build_obj(desc, seed)
    except Skip:
        return {"skipped": 1, "outcome": "zero-object"}
    if np.linalg.norm(M.dense_of(o)) < 1e-13:
        return {"skipped": 1, "outcome": "zero-object"}
    d = tempfile.mkdtemp(prefix="c14rt_")
    spill_dir = o.compress_config.dump_matrix_dir if desc["spill"] else None
    try:
        p = os.path.join(d, "obj.npz")
        o.dump(p)
        if not os.path.exists(p):
            add(viol, "C14:roundtrip:no-file", f"{desc}: dump wrote nothing")
            return {"nontrivial": True, "viol": list(viol.values()), "outcome": "rt-viol"}
        cls = {"mps": Mps, "mps-complex": Mps, "mpdm": MpDm, "mpo": Mpo}[desc["kind"]]
        try:
            l = cls.load(ch.new_model(), p)
        except Exception as e:
            add(viol, f"C14:roundtrip:load-exception:{desc['kind']}:{type(e).__name__}", f"{desc}: load raised {e!r}")
            return {"nontrivial": True, "viol": list(viol.values()), "outcome": "rt-viol"}
        tag = f"{desc}"
        if l.site_num != o.site_num:
            add(viol, "C14:roundtrip:site_num", tag)
        for i in range(min(l.site_num, o.site_num)):
            a, b = np.asarray(o[i].array), np.asarray(l[i].array)
            if a.shape != b.shape or a.dtype != b.dtype or not np.array_equal(a, b):
                add(viol, f"C14:roundtrip:tensor:{desc['kind']}", f"{tag}: site {i} tensor differs after load (dtype {a.dtype}/{b.dtype})")
        if desc["kind"] != "mpo":
            if complex(l.coeff) != complex(o.coeff):
                add(viol, "C14:roundtrip:coeff", f"{tag}: coeff {o.coeff} -> {l.coeff}")
        if l.dtype != o.dtype:
            add(viol, f"C14:roundtrip:dtype:{desc['kind']}", f"{tag}: dtype {o.dtype} -> {l.dtype}")
        if int(l.qnidx) != int(o.qnidx) or bool(l.to_right) != bool(o.to_right):
            add(viol, "C14:roundtrip:centre-direction", f"{tag}: qnidx/to_right {o.qnidx}/{o.to_right} -> {l.qnidx}/{l.to_right}")
        if np.any(np.asarray(l.qntot).reshape(-1) != np.asarray(o.qntot).reshape(-1)):
            add(viol, "C14:roundtrip:qntot", f"{tag}: {o.qntot} -> {l.qntot}")
        if len(l.qn) != len(o.qn) or any(not np.array_equal(np.asarray(x), np.asarray(y)) for x, y in zip(l.qn, o.qn)):
            add(viol, f"C14:roundtrip:labels:{desc['kind']}", f"{tag}: bond labels differ after load")
        # later operations give identical results
        if not viol and not desc["spill"]:
            # (with the spill-to-disk path the tensors live in files owned by the original object: python deepcopy would alias them)
            import copy as _copy
            later = ["canonicalise", "compress", "expectation"]
            if desc["kind"] in ("mps", "mps-complex") and desc["n"] >= 2:
                later.append("evolve")
            for op in later:
                x, y = _copy.deepcopy(o), l if op == later[-1] else _copy.deepcopy(l)
                try:
                    rx, ry = later_op(ch, x, op), later_op(ch, y, op)
                except M.Disabled:
                    continue
                except Exception as e:
                    # the same exception on both sides is not a round-trip problem
                    try:
                        later_op(ch, _copy.deepcopy(o), op)
                        add(viol, f"C14:roundtrip:later-op-exception:{op}", f"{tag}: {op} fails only on the loaded object: {e!r}")
                    except Exception:
                        pass
                    continue
                if not close(np.asarray(rx), np.asarray(ry), 1e-12, floor=1e-14):
                    add(viol, f"C14:roundtrip:later-op:{op}", f"{tag}: {op} gives different results on the original and on the loaded object")
            # objects derived from the loaded one are independent of it: an in-place update of a derived object's prefactor (what the
            # library itself does in evolve_exact) must leave the loaded object as it was
            if desc["kind"] != "mpo" and not viol:
                ref = M.dense_of(o)
                for how, derive in (("copy()", lambda z: z.copy()), ("conj()", lambda z: z.conj()), ("scale(1)", lambda z: z.scale(1.0))):
                    try:
                        dd = derive(l)
                        dd.coeff *= (0.5 + 0.5j) if np.iscomplexobj(ref) else 0.5
                    except Exception:
                        continue
                    if not close(M.dense_of(l), ref, 1e-12, floor=1e-14):
                        add(viol, f"C14:roundtrip:loaded-object-shares-prefactor:{how}", f"{tag}: 'd = loaded.{how}; d.coeff *= c' changed the loaded object itself (coeff now {l.coeff!r})")
                        break
            # ... and so must in-place gauge moves / truncation of a derived object (bond labels, centre, direction of the loaded
            # object are its own)
            if desc["kind"] != "mpo" and not viol and o.site_num >= 2:
                from renormalizer.utils import CompressConfig, CompressCriteria
                ref = M.dense_of(o)
                qn_before = [np.array(q, dtype=int).copy() for q in l.qn]
                for how, derive in (("copy()", lambda z: z.copy()), ("conj()", lambda z: z.conj()), ("to_complex()", lambda z: z.to_complex()),
                                    ("scale(2)", lambda z: z.scale(2.0))):
                    try:
                        dd = derive(l)
                        dd.ensure_left_canonical()
                        dd.ensure_right_canonical()
                        dd.compress_config = CompressConfig(CompressCriteria.fixed, max_bonddim=1)
                        dd.compress()
                        dd.move_qnidx(dd.site_num // 2)
                    except M.Disabled:
                        continue
                    except Exception as e:
                        add(viol, f"C14:roundtrip:derived-object-exception:{type(e).__name__}", f"{tag}: gauge moves on loaded.{how} raised {e!r}")
                        break
                    same_qn = len(l.qn) == len(qn_before) and all(np.array_equal(np.array(a, dtype=int), b) for a, b in zip(l.qn, qn_before))
                    if not same_qn:
                        add(viol, f"C14:roundtrip:loaded-object-shares-labels:{how}", f"{tag}: re-gauging / truncating 'loaded.{how}' changed the bond labels of the loaded object itself")
                        break
                    try:
                        probe = _copy.deepcopy(l)
                        probe.ensure_left_canonical()
                        probe.ensure_right_canonical()
                        if not close(M.dense_of(probe), ref, 1e-10, floor=1e-14):
                            add(viol, f"C14:roundtrip:loaded-object-unusable-after-derived-gauge-move:{how}", f"{tag}: after re-gauging 'loaded.{how}' a sweep over the loaded object changes it by rel {rel_err(M.dense_of(probe), ref):.2e}")
                            break
                    except Exception as e:
                        add(viol, f"C14:roundtrip:loaded-object-unusable-after-derived-gauge-move:{how}", f"{tag}: after re-gauging 'loaded.{how}' a sweep over the loaded object raised {e!r}")
                        break
        mb = max(o.bond_dims)
    finally:
        shutil.rmtree(d, ignore_errors=True)
        if spill_dir:
            del o
            shutil.rmtree(spill_dir, ignore_errors=True)
    return {"nontrivial": mb > 1 or desc["n"] == 1, "outcome": f"rt:{desc['kind']}:{'viol' if viol else 'ok'}", "viol": list(viol.values()), "sample": {"desc": desc}}


def later_op(ch, x, op):
    from renormalizer.utils import CompressConfig, CompressCriteria, EvolveConfig, EvolveMethod
    if op == "canonicalise":
        x.ensure_left_canonical()
        return M.dense_of(x)
    if op == "compress":
        x.ensure_right_canonical()
        x.compress_config = CompressConfig(CompressCriteria.fixed, max_bonddim=2)
        x.compress()
        return M.dense_of(x)
    if op == "expectation":
        if M.kind_of(x) == "mpo":
            return x.todense()
        return np.array(x.expectation(ch.mpo_neutral()))
    if op == "evolve":
        x.ensure_left_canonical()
        x.canonicalise().canonicalise()
        x.evolve_config = EvolveConfig(EvolveMethod.tdvp_ps)
        x.compress_config = CompressConfig(CompressCriteria.fixed, max_bonddim=8)
        return M.dense_of(x.evolve(ch.mpo_neutral(), 0.1))
    raise ValueError(op)


def run_roundtrip_tree(desc, seed):
    from renormalizer.tn import TTNS, TTNO
    from renormalizer.model import basis as ba
    from mc.chains import neutral_terms
    viol = {}
    parent = desc["parent"]
    N = len(parent)
    basis = [ba.BasisSimpleElectron(i) for i in range(N)]
    groups = [(i,) for i in range(N)]
    tree = TR.build_basis_tree(parent, groups, basis)
    env.reseed(seed, ("c14tree", tuple(parent)))
    try:
        t = TTNS.random(tree, max(1, N // 2) if N > 1 else 1, 4)
    except (FloatingPointError, ValueError):
        return {"skipped": 1, "outcome": "random-failed"}
    if desc["complex"]:
        t = t.scale(0.6 + 0.8j)
        t.coeff = 0.5j
    d = tempfile.mkdtemp(prefix="c14tt_")
    try:
        p = os.path.join(d, "t.npz")
        if desc.get("user_attr"):
            # the documented way to carry an additional attribute through the file: the mandatory entries (prefactor) must still be there
            t.tag = 42
            t.dump(p, other_attrs=["tag"])
            l = TTNS.load(tree, p, other_attrs=["tag"])
            if int(np.asarray(l.tag)) != 42:
                add(viol, "C14:roundtrip-tree:user-attribute", f"tree {parent}: attribute 'tag' came back as {l.tag!r}")
        else:
            t.dump(p)
            l = TTNS.load(tree, p)
        for i, (a, b) in enumerate(zip(t.node_list, l.node_list)):
            if a.tensor.dtype != b.tensor.dtype or not np.array_equal(a.tensor, b.tensor):
                add(viol, "C14:roundtrip-tree:tensor", f"tree {parent}: node {i} differs after load")
            if not np.array_equal(np.asarray(a.qn), np.asarray(b.qn)):
                add(viol, "C14:roundtrip-tree:labels", f"tree {parent}: node {i} labels differ")
        if complex(np.asarray(l.coeff).item() if hasattr(l.coeff, "item") else l.coeff) != complex(t.coeff):
            add(viol, "C14:roundtrip-tree:coeff", f"tree {parent}: coeff {t.coeff} -> {l.coeff}")
        order = list(basis)
        if not close(TR.dense_state(l, order), TR.dense_state(t, order), 1e-14, floor=1e-16):
            add(viol, "C14:roundtrip-tree:dense", f"tree {parent}")
        if not viol and N > 1:
            rs = env.rng(seed, ("c14treeH", N))
            H = TTNO(tree, neutral_terms("elec", N, rs))
            e1, e2 = t.expectation(H), l.expectation(H)
            if abs(e1 - e2) > 1e-12 * max(1, abs(e1)):
                add(viol, "C14:roundtrip-tree:expectation", f"tree {parent}: {e1} vs {e2}")
            a, b = TR.clone_ttns(t), l
            for x in (a, b):
                x.canonicalise()
            if not close(TR.dense_state(a, order), TR.dense_state(b, order), 1e-12):
                add(viol, "C14:roundtrip-tree:canonicalise", f"tree {parent}: canonicalise differs on the loaded object")
        if not viol:
            ref = TR.dense_state(l, order)
            for how, derive in (("copy()", lambda z: z.copy()), ("to_complex()", lambda z: z.to_complex()), ("scale(1)", lambda z: z.scale(1.0))):
                dd = derive(l)
                dd.coeff *= 0.5
                if not close(TR.dense_state(l, order), ref, 1e-12, floor=1e-14):
                    add(viol, f"C14:roundtrip-tree:loaded-object-shares-prefactor:{how}", f"tree {parent}: 'd = loaded.{how}; d.coeff *= c' changed the loaded object itself (coeff now {l.coeff!r})")
                    break
    except Exception as e:
        import sys
        import traceback
        tb = traceback.extract_tb(sys.exc_info()[2])
        lib = [f.name for f in tb if "/renormalizer/" in f.filename]
        add(viol, f"C14:roundtrip-tree:exception:{type(e).__name__}:{lib[-1] if lib else '?'}", f"tree {parent} complex={desc['complex']}: {e!r}")
    finally:
        shutil.rmtree(d, ignore_errors=True)
    return {"nontrivial": N > 1, "outcome": f"rt-tree:{'viol' if viol else 'ok'}", "viol": list(viol.values()), "sample": {"desc": desc}}


def run_case(desc, seed):
    if desc["k"] == "crash":
        return run_crash(desc, seed)
    if desc["k"] == "roundtrip":
        return run_roundtrip(desc, seed)
    return run_roundtrip_tree(desc, seed)
