"""C03 -- state and operator arithmetic agrees with dense linear algebra in any gauge.   (E2, register machine)

Three exhaustive explorations per (family, n, sector, operand variant):
  prod   the complete product  gauge(a) x gauge(b) x arithmetic/scalar action x post-op(none | ensure_left | ensure_right+compress)
  depth  every sequence of actions of the full alphabet up to depth d (sharded by first action)
  bfs    BFS to a fixpoint over the abstract gauge states reachable with the gauge alphabet, every arithmetic/scalar
         action applied in every reached state, followed by every post-op
Invariant after every transition, on every register: todense()*coeff == dense shadow (rel 1e-9).
"""
import functools

import numpy as np

from mc import env  # noqa: F401
from mc import machine as M
from mc import actions as A
from mc.chains import Chain, sectors, raising_charge

ID = "C03"
LEVEL = "model_checking"
RULE = ("a case = (family, n, sector, variant, exploration mode, shard); states are abstract gauge states of all registers "
        "(kind,dtype,qnidx,to_right,isometry flags,bond dims,coeff class,qntot), transitions are real method calls checked "
        "against the dense shadow; non-trivial case = at least one transition executed on objects with some bond dimension > 1 "
        "or n = 1 (degenerate chain); distinct = distinct descriptor")
ASSUMPTIONS = [
    "tensor entries are seeded generic values (VERIF_SEED); structure (sites, sectors, gauge histories, action sequences) is enumerated completely within the bound",
    "branching uses python deepcopy of the live objects, never the library's copy()",
    "dot / mp_norm / angle / expectation are compared on the tensor part (library convention: they ignore coeff); norm and distance include coeff",
    "transitions producing an exactly zero object are pruned (not normalisable)",
    "AssertionError raised by the precondition asserts of canonicalise/compress/add/apply themselves disables the transition",
]
HORIZON_S = 900
HEAVY_CASES = True


def COST(desc):
    w = {"bfs": 30, "prod": 15, "depth": 1}[desc["mode"]]
    return w * desc["n"] ** 2 * (2 if desc["fam"] in ("eph", "mixed") else 1)


FAMILIES_Q = [("elec", (1, 2, 3)), ("two", (2, 3)), ("spin", (2,)), ("eph", (3,))]
FAMILIES_T = [("elec", (1, 2, 3, 4)), ("two", (1, 2, 3)), ("spin", (1, 2, 3)), ("eph", (2, 3)), ("mixed", (3,))]      # (n = 4 for the two-component and eph families: over an hour)


def BOUND(tier):
    if tier == "quick":
        return {"families": FAMILIES_Q, "prod": "all sectors", "depth": 2, "bfs": "single-operand gauge fixpoint (a with b fresh, b with a fresh)"}
    return {"families": FAMILIES_T, "prod": "all sectors", "depth": "3 for n = 1, 2 for n >= 2", "bfs": "joint gauge fixpoint of (a,b) for n <= 2, single-operand fixpoints for n = 3, none for n = 4",
            "variants": "real/real and real/complex operands for elec, spin (n <= 3) and every family at n <= 2; real/real otherwise"}


def configs(tier):
    fams = FAMILIES_Q if tier == "quick" else FAMILIES_T
    for fam, ns in fams:
        for n in ns:
            secs = sectors(fam, n)
            for isec, sec in enumerate(secs):
                if tier == "quick":
                    if fam == "eph" and sec != [1]:
                        continue
                    if fam == "two" and n == 3 and sec not in ([1, 1], [2, 0]):
                        continue
                    variants = ["rr", "rc"] if (fam == "spin" or (fam == "elec" and n <= 2)) else ["rr"]
                else:
                    variants = ["rr", "rc"] if (fam in ("elec", "spin") and n <= 3) or n <= 2 else ["rr"]
                for var in variants:
                    yield fam, n, sec, var


def cases(tier, seed):
    quick = tier == "quick"
    for fam, n, sec, var in configs(tier):
        base = {"fam": fam, "n": n, "sector": sec, "var": var}
        # (i) product, sharded by the gauge action on a
        st, acts = build(fam, n, tuple(sec), var, seed)
        ga = [a.name for a in acts["gauge_a"]] + ["-"]
        for g in ga:
            yield dict(base, mode="prod", shard=g)
        # (ii) depth-bounded, sharded by first action
        # depth 3 multiplies the work by the alphabet size (~60): affordable for one-site chains only (stated in BOUND)
        depth = 2 if (quick or n >= 2) else 3
        for a in acts["all"]:
            yield dict(base, mode="depth", depth=depth, shard=a.name)
        # (iii) gauge BFS + leaf groups
        leaf = acts["arith"] + acts["scalar"]
        if quick and (fam == "eph" or (fam == "two" and n == 3)):
            continue   # quick tier: these configurations are explored by prod and depth only (bfs in thorough)
        if not quick and n >= 4:
            continue   # thorough: 4-site chains by prod and depth only
        for i in range(0, len(leaf), 6):
            yield dict(base, mode="bfs", joint=not quick and n <= 2, shard=i)


@functools.lru_cache(maxsize=8)
def _chain(fam, n, seed):
    return Chain(fam, n, seed)


def build(fam, n, sec, var, seed):
    ch = _chain(fam, n, seed)
    m = 8 if fam == "two" else 3
    st = M.State()
    st.regs["a"] = ch.random_mps(list(sec), m, "a")
    st.regs["b"] = ch.random_mps(list(sec), max(2, m - 1), "b", cplx=(var == "rc"))
    st.regs["O"] = ch.mpo_neutral()
    P = ch.mpo_raising()
    if P is not None:
        st.regs["P"] = P
    for k, v in st.regs.items():
        st.sh[k] = M.dense_of(v)
    has_P = P is not None
    gauge_a = A.gauge_actions(n, targets=("a",))
    gauge_b = A.gauge_actions(n, targets=("b",)) + A.operator_gauge_actions(has_P=has_P)
    arith = A.arithmetic_actions(has_P=has_P, has_d=True)
    scalar = A.scalar_actions()
    acts = {"gauge_a": gauge_a, "gauge_b": gauge_b, "arith": arith, "scalar": scalar,
            "all": gauge_a + gauge_b + arith + scalar}
    return st, acts


def post_ops():
    def none(st):
        return None

    def pl(st):
        for r in ("a", "b", "d"):
            if r in st.regs:
                st.regs[r].ensure_left_canonical()

    def prc(st):
        for r in ("a", "b", "d"):
            if r in st.regs:
                st.regs[r].ensure_right_canonical()
                A.lossless_config(st.regs[r])
                M.call(st.regs[r].compress)
        if "Q" in st.regs:
            M.call(st.regs["Q"].canonicalise)
            A.lossless_config(st.regs["Q"])
            M.call(st.regs["Q"].compress)
    return [M.Action("post:none", none), M.Action("post:ensure_left_canonical(all states)", pl),
            M.Action("post:ensure_right_canonical+compress(all)", prc)]


def run_case(desc, seed):
    fam, n, sec, var = desc["fam"], desc["n"], tuple(desc["sector"]), desc["var"]
    st0, acts = build(fam, n, sec, var, seed)
    inv = [M.inv_dense]
    viol = {}
    stats = {"transitions": 0, "disabled": 0, "states": set()}
    maxbond = max(max(o.bond_dims) for o in st0.regs.values())

    def record(trace, kind, reg, msg):
        # signature: failing call (last action) + invariant kind; the gauge history is in the message / replay
        last = trace[-1] if trace else "?"
        act = last
        if kind == "dense" and last.startswith("post:"):
            act = (trace[-2] if len(trace) > 1 else "?") + " then " + last
        if kind.startswith("exception"):
            # exceptions are identified by type + innermost library frame (the call site), not by the action that reached it
            sig = f"C03:{kind}" + (":one-site-chain" if n == 1 else "")
        else:
            sig = f"C03:{kind}:{_generic(act)}" + (":one-site-chain" if n == 1 else "")
        if sig not in viol:
            viol[sig] = {"sig": sig, "msg": f"[{fam} n={n} sector={list(sec)} {var}] trace={trace}: {msg}"}

    mode = desc["mode"]
    if mode == "prod":
        posts = post_ops()
        g1s = [a for a in acts["gauge_a"] if a.name == desc["shard"]] if desc["shard"] != "-" else [None]
        for g1 in g1s:
            s1 = st0.clone()
            if g1 is not None:
                status, v = M.step(s1, g1, inv)
                if status == "disabled":
                    continue
                stats["transitions"] += 1
                for x in v:
                    record(s1.trace if status == "ok" else st0.trace + [g1.name], *x)
                if v:
                    continue
            for g2 in [None] + acts["gauge_b"]:
                s2 = s1.clone()
                if g2 is not None:
                    status, v = M.step(s2, g2, inv)
                    if status == "disabled":
                        stats["disabled"] += 1
                        continue
                    stats["transitions"] += 1
                    for x in v:
                        record(s1.trace + [g2.name], *x)
                    if v:
                        continue
                stats["states"].add(s2.key())
                for act in acts["arith"] + acts["scalar"]:
                    s3 = s2.clone()
                    status, v = M.step(s3, act, inv)
                    if status == "disabled":
                        stats["disabled"] += 1
                        continue
                    stats["transitions"] += 1
                    for x in v:
                        record(s2.trace + [act.name], *x)
                    if v:
                        continue
                    stats["states"].add(s3.key())
                    for p in posts[1:]:
                        s4 = s3.clone()
                        status, v = M.step(s4, p, inv)
                        if status == "disabled":
                            stats["disabled"] += 1
                            continue
                        stats["transitions"] += 1
                        stats["states"].add(s4.key())
                        for x in v:
                            record(s3.trace + [p.name], *x)
    elif mode == "depth":
        for trace, kind, reg, msg in M.explore_depth(st0, acts["all"], inv, desc["depth"], first=desc["shard"], stats=stats):
            record(trace, kind, reg, msg)
    elif mode == "bfs":
        leaf = (acts["arith"] + acts["scalar"])[desc["shard"]: desc["shard"] + 6]
        posts = post_ops()
        gsets = [acts["gauge_a"] + acts["gauge_b"]] if desc["joint"] else [acts["gauge_a"], acts["gauge_b"]]
        for gset in gsets:
            bstats = {}
            reached = []

            class Collect:
                pass

            # BFS over gauge states; collect every expanded concrete representative
            frontier_states = _bfs_collect(st0, gset, inv, bstats, record)
            stats["transitions"] += bstats.get("transitions", 0)
            stats["disabled"] += bstats.get("disabled", 0)
            stats["states"] |= bstats["states"]
            stats["abstraction_conflicts"] = stats.get("abstraction_conflicts", 0) + bstats.get("nondeterministic_abstract_successors", 0)
            stats["fixpoint"] = bstats.get("fixpoint", False) and stats.get("fixpoint", True)
            for s2 in frontier_states:
                for act in leaf:
                    s3 = s2.clone()
                    status, v = M.step(s3, act, inv)
                    if status == "disabled":
                        stats["disabled"] += 1
                        continue
                    stats["transitions"] += 1
                    for x in v:
                        record(s2.trace + [act.name], *x)
                    if v:
                        continue
                    for p in posts[1:]:
                        s4 = s3.clone()
                        status, v = M.step(s4, p, inv)
                        if status == "disabled":
                            continue
                        stats["transitions"] += 1
                        for x in v:
                            record(s3.trace + [p.name], *x)
    else:
        raise ValueError(mode)
    counters = {"disabled_transitions": stats["disabled"]}
    if "abstraction_conflicts" in stats:
        counters["abstraction_conflicts"] = stats["abstraction_conflicts"]
        counters["bfs_fixpoints_reached"] = int(bool(stats.get("fixpoint")))
        counters["bfs_runs"] = 1
    return {"nontrivial": stats["transitions"] > 0 and (maxbond > 1 or n == 1), "states": len(stats["states"]),
            "transitions": stats["transitions"], "viol": list(viol.values()),
            "outcome": f"{mode}:{'viol' if viol else 'ok'}", "counters": counters,
            "sample": {"desc": desc, "states": len(stats["states"]), "transitions": stats["transitions"]}}


def _bfs_collect(st0, gset, inv, bstats, record):
    """run explore_bfs and return one concrete representative per expanded node (incl. the initial state)"""
    reps = [st0]
    seen_traces = set()
    orig_step = M.step

    def spy(state, action, invariants):
        status, v = orig_step(state, action, invariants)
        if status == "ok" and not v:
            t = tuple(state.trace)
            if t not in seen_traces:
                seen_traces.add(t)
                reps.append(state)
        return status, v

    M.step = spy
    try:
        for trace, kind, reg, msg in M.explore_bfs(st0, gset, inv, stats=bstats):
            record(trace, kind, reg, msg)
    finally:
        M.step = orig_step
    # one representative per (abstract key) pair-of-reps is enough for the leaves: keep at most 2 per key
    out, cnt = [], {}
    for s in reps:
        k = s.key()
        if cnt.get(k, 0) < 2:
            cnt[k] = cnt.get(k, 0) + 1
            out.append(s)
    return out


def _generic(name):
    """strip site indices so that the signature names the call, not the instance"""
    import re
    return re.sub(r"move_qnidx\(\d+\)", "move_qnidx(j)", name)
