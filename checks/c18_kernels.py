"""C18 -- numerical kernels meet their contracts on every admissible input.   (E1)

(K) Krylov exponential: every combination of size x spectrum kind x start-vector kind x {real symmetric, complex Hermitian}
    x dt x block size, inside the admissible range made explicit below; oracle scipy.linalg.expm(dt*A) v.
(B) symmetry-blocked SVD / QR / eigendecomposition: EVERY label pattern with left side <= a and right side <= b, labels in
    {0,1,2} (one component) and a three-label two-component alphabet, every total label, modes {SVD full, SVD economic,
    QR system L, QR system R, eigh_qn L, eigh_qn R}; oracle: orthonormal columns, exact reconstruction of the allowed part,
    label support of every column, paired labels sum to the total, economic singular values globally sorted and equal to
    NumPy's SVD of the masked matrix, "Invalid quantum number" only when no allowed block exists.
"""
import itertools

import numpy as np
import scipy.linalg

from mc import env  # noqa: F401
from mc.ref.dense import close, rel_err

ID = "C18"
LEVEL = "exploration"
RULE = ("Krylov: one case = (n, spectrum kind, start kind, field, dt, block size); non-trivial = the Lanczos recursion ran at least one "
        "step (n>1) -- counted per descriptor.  Blocked decompositions: one case = (l, r, label alphabet, block of left patterns) running every right "
        "pattern, every total label and every mode; non-trivial pattern = at least two distinct labels on some side and at least one allowed entry; "
        "distinct_nontrivial counts patterns x totals, not blocks.")
ASSUMPTIONS = [
    "admissible range of the Krylov exponential: imaginary dt with ||A|| |dt| <= 20, real dt with spread(A) |dt| <= 8 (for real dt the map itself has condition e^{|dt| spread})",
    "Krylov tolerance: relative 1e-5 + 1e-13 e^{|Re dt| spread} (the routine's own stopping rule is allclose at rtol 1e-5)",
    "matrix entries are seeded generic values; label patterns are enumerated completely",
]
HORIZON_S = 300


def BOUND(tier):
    if tier == "quick":
        return {"krylov": {"n": [1, 2, 3, 5, 8, 20], "block": [2, 3, 5, 50]}, "blocked": {"l<=3,r<=3": "labels {0,1,2}", "two-component": "l,r<=2"}}
    return {"krylov": {"n": [1, 2, 3, 5, 8, 20, 60], "block": [2, 3, 5, 10, 50]}, "blocked": {"l<=4,r<=4": "labels {0,1,2}", "two-component": "l,r<=3"}}


SPECTRA = ["generic", "few", "rankdef", "diag", "identity", "blockdiag", "diagzero"]
STARTS = ["generic", "eigvec", "inv2", "real", "kernel", "tiny-norm", "huge-norm"]
DTS = [0.1, -0.1, 1.0, -1.0, 0.5j, -0.5j, 2j, -2j]
TWO = [(0, 0), (1, 0), (0, 1)]


def cases(tier, seed):
    quick = tier == "quick"
    ns = [1, 2, 3, 5, 8, 20] if quick else [1, 2, 3, 5, 8, 20, 60]
    bss = [2, 3, 5, 50] if quick else [2, 3, 5, 10, 50]
    for n in ns:
        for spec in SPECTRA:
            for start in STARTS:
                for field in ("real", "complex"):
                    for idt, dt in enumerate(DTS):
                        for bs in bss:
                            yield {"k": "krylov", "n": n, "spec": spec, "start": start, "field": field, "dt": idt, "bs": bs}
    lmax = 3 if quick else 4
    for l in range(1, lmax + 1):
        for r in range(1, lmax + 1):
            pats = list(itertools.product(range(3), repeat=l))
            for i in range(0, len(pats), 9):
                yield {"k": "blocked", "l": l, "r": r, "alpha": "one", "lo": i, "hi": min(len(pats), i + 9)}
    lmax2 = 2 if quick else 3
    for l in range(1, lmax2 + 1):
        for r in range(1, lmax2 + 1):
            pats = list(itertools.product(range(3), repeat=l))
            for i in range(0, len(pats), 9):
                yield {"k": "blocked", "l": l, "r": r, "alpha": "two", "lo": i, "hi": min(len(pats), i + 9)}


# ------------------------------------------------------------------------------------------------ Krylov

def make_A(n, spec, field, rs):
    if spec == "generic":
        w = np.linspace(-2.0, 2.5, n) + 0.05 * rs.standard_normal(n)
    elif spec == "few":
        w = np.array([-1.5, 0.5, 2.0])[np.arange(n) % 3]
    elif spec == "rankdef":
        w = np.where(np.arange(n) % 2 == 0, 0.0, np.linspace(0.5, 2.5, n))
    elif spec in ("diag", "diagzero"):
        w = np.linspace(-2.0, 2.0, n) if n > 1 else np.array([1.3])
        if spec == "diagzero":
            w = w.copy()
            w[0] = 0.0
        return np.diag(w).astype(complex if field == "complex" else float), w
    elif spec == "identity":
        w = np.full(n, 1.7)
    elif spec == "blockdiag":
        w = np.linspace(-2.0, 2.0, n)
    else:
        raise ValueError(spec)
    if spec == "blockdiag" and n >= 4:
        h = n // 2
        A = np.zeros((n, n), dtype=complex if field == "complex" else float)
        for sl, ww in ((slice(0, h), w[:h]), (slice(h, n), w[h:])):
            q = rand_unitary(len(ww), field, rs)
            A[sl, sl] = (q * ww) @ q.conj().T
        return (A + A.conj().T) / 2, w
    q = rand_unitary(n, field, rs)
    A = (q * w) @ q.conj().T
    return (A + A.conj().T) / 2, w


def rand_unitary(n, field, rs):
    m = rs.standard_normal((n, n))
    if field == "complex":
        m = m + 1j * rs.standard_normal((n, n))
    q, _ = np.linalg.qr(m)
    return q


def make_start(A, start, field, rs):
    n = A.shape[0]
    w, v = np.linalg.eigh(A)
    if start == "generic":
        x = rs.standard_normal(n) + (1j * rs.standard_normal(n) if field == "complex" else 0)
    elif start in ("tiny-norm", "huge-norm"):
        # the exponential is linear in v: the relative accuracy must not depend on the norm of the starting vector
        x = (rs.standard_normal(n) + (1j * rs.standard_normal(n) if field == "complex" else 0)) * (1e-9 if start == "tiny-norm" else 1e7)
    elif start == "eigvec":
        x = v[:, n // 2] * 1.7
    elif start == "inv2":
        x = v[:, 0] * 0.8 + v[:, -1] * 0.6 if n > 1 else v[:, 0]
    elif start == "real":
        x = rs.standard_normal(n)            # a REAL start vector, also under a complex Hermitian A
    elif start == "kernel":
        # a vector annihilated exactly by A when A has an exact zero row/column structure; otherwise the eigenvector closest to 0
        k = int(np.argmin(np.abs(w)))
        if np.allclose(A, np.diag(np.diag(A))):
            x = np.zeros(n)
            x[int(np.argmin(np.abs(np.diag(A))))] = 2.0
        else:
            x = v[:, k]
    else:
        raise ValueError(start)
    return x


def run_krylov(desc, seed):
    from renormalizer.lib import expm_krylov
    n, spec, start, field, bs = desc["n"], desc["spec"], desc["start"], desc["field"], desc["bs"]
    dt = DTS[desc["dt"]]
    rs = env.rng(seed, ("krylov", n, spec, field))
    A, w = make_A(n, spec, field, rs)
    x = make_start(A, start, field, env.rng(seed, ("kstart", n, spec, field, start)))
    normA = np.abs(np.linalg.eigvalsh(A)).max()
    spread = np.ptp(np.linalg.eigvalsh(A))
    if isinstance(dt, complex):
        if normA * abs(dt) > 20:
            return {"skipped": 1, "outcome": "outside-range"}
    else:
        if spread * abs(dt) > 8:
            return {"skipped": 1, "outcome": "outside-range"}
    ref = scipy.linalg.expm(dt * A) @ x
    viol = []
    try:
        got, nvec = expm_krylov(lambda y: A @ y, dt, x.copy(), block_size=bs)
        got = np.asarray(got)
        if spec in ("identity", "diag"):
            # the operator is handed over as a FUNCTION: for these spectra it can be written so that it returns its argument itself,
            # a view of it, or works through a preallocated buffer -- the result must be the same
            dvec = np.real(np.diag(A)).copy()
            buf = np.empty(n, dtype=complex if (np.iscomplexobj(x) or np.iscomplexobj(A)) else float)

            def through_buffer(y):
                np.multiply(dvec, y, out=buf)
                return buf
            forms = [("returns-a-reused-buffer", through_buffer, ref)]
            if spec == "identity":
                # the identity operator itself (the spectrum above is 1.7 x identity)
                forms += [("returns-its-argument", lambda y: y, np.exp(dt) * x), ("returns-a-view-of-its-argument", lambda y: y[:], np.exp(dt) * x)]
            for fname, fn, ref_f in forms:
                try:
                    g2, _ = expm_krylov(fn, dt, x.copy(), block_size=bs)
                    g2 = np.asarray(g2)
                except Exception as e:
                    return {"nontrivial": n > 1, "outcome": "exception", "viol": [{"sig": f"C18:krylov:operator-function:{fname}:exception:{type(e).__name__}", "msg": f"{desc}: {e!r}"}]}
                e2 = np.linalg.norm(g2 - ref_f) / max(np.linalg.norm(ref_f), 1e-300)
                if not np.all(np.isfinite(g2)) or e2 > 1e-5 + 1e-13 * np.exp(abs(np.real(dt)) * spread):
                    return {"nontrivial": n > 1, "outcome": "mismatch", "viol": [{"sig": f"C18:krylov:operator-function:{fname}",
                            "msg": f"expm_krylov with an operator function that {fname}: rel err {e2:.3e} (n={n} spec={spec} start={start} field={field} dt={dt} block={bs})"}]}
    except Exception as e:
        cls = "kernel-start" if np.linalg.norm(A @ x) == 0 else "other"
        return {"nontrivial": n > 1, "outcome": "exception", "viol": [{"sig": f"C18:krylov:exception:{cls}:{type(e).__name__}",
                "msg": f"expm_krylov raised {e!r} for {desc}"}]}
    tol = 1e-5 + 1e-13 * np.exp(abs(np.real(dt)) * spread)
    err = np.linalg.norm(got - ref) / max(np.linalg.norm(ref), 1e-300)
    if not np.all(np.isfinite(got)) or err > tol:
        cls = "real-start-complex-A" if (field == "complex" and not np.iscomplexobj(x) and np.abs(A.imag).max() > 0) else "other"
        viol.append({"sig": f"C18:krylov:mismatch:{cls}",
                     "msg": f"expm_krylov vs expm: rel err {err:.3e} > {tol:.1e}; n={n} spec={spec} start={start} field={field} dt={dt} block={bs} nvec={nvec}"})
    return {"nontrivial": n > 1, "outcome": f"krylov:nvec={min(int(nvec), 9)}", "viol": viol,
            "sample": {"desc": desc, "dt": str(dt), "rel_err": float(err), "lanczos_vectors": int(nvec)}}


# ------------------------------------------------------------------------------------------------ blocked decompositions

def lab(alpha, idx):
    if alpha == "one":
        return np.array([[i] for i in idx])
    return np.array([TWO[i] for i in idx])


def totals(alpha):
    if alpha == "one":
        return [np.array([t]) for t in range(0, 5)]
    return [np.array(t) for t in [(0, 0), (1, 0), (0, 1), (1, 1), (2, 0), (2, 1)]]


def orth_dev(M):
    if M.shape[1] == 0:
        return 0.0
    return float(np.abs(M.conj().T @ M - np.eye(M.shape[1])).max())


def run_blocked(desc, seed):
    from renormalizer.mps import svd_qn as sq
    l, r, alpha = desc["l"], desc["r"], desc["alpha"]
    lpats = list(itertools.product(range(3), repeat=l))[desc["lo"]:desc["hi"]]
    rpats = list(itertools.product(range(3), repeat=r))
    viol = {}
    nt = 0
    npat = 0
    ndecomp = 0

    def add(sig, msg):
        if sig not in viol:
            viol[sig] = {"sig": sig, "msg": msg}

    for lp in lpats:
        ql = lab(alpha, lp)
        for rp in rpats:
            qr = lab(alpha, rp)
            rs = env.rng(seed, ("blocked", lp, rp, alpha))
            C = rs.standard_normal((l, r)) + 0.0
            Cc = C + 1j * rs.standard_normal((l, r))
            # history: ONE array object carries the total label and is updated IN PLACE between the calls (the package does this itself:
            # Mpo.apply has `new_mps.qntot += self.qntot`); every call must decompose for the label the array holds at that moment
            tot_arr = totals(alpha)[0].copy()
            for tot in totals(alpha):
                tot_arr[...] = tot
                hmask = np.all(ql[:, None, :] + qr[None, :, :] == tot[None, None, :], axis=-1)
                if not hmask.any():
                    continue
                Hm = np.where(hmask, C, 0)
                for hmode, kw in (("svd-economic", dict(full_matrices=False)), ("qr-L-economic", dict(QR=True, system="L", full_matrices=False))):
                    ndecomp += 1
                    try:
                        out = sq.svd_qn(C.copy(), ql, qr, tot_arr, **kw)
                        rec = (out[0] * out[1]) @ out[3].T if len(out) == 6 else out[0][:, :min(out[0].shape[1], out[2].shape[1])] @ out[2][:, :min(out[0].shape[1], out[2].shape[1])].T
                    except Exception as e:
                        add(f"C18:blocked:{hmode}:in-place-updated-total:exception:{type(e).__name__}", f"ql={ql.tolist()} qr={qr.tolist()} qntot={tot.tolist()} (same array object as in the previous call): {e!r}")
                        continue
                    if not close(rec, Hm, 1e-9, floor=1e-12):
                        add(f"C18:blocked:{hmode}:in-place-updated-total", f"ql={ql.tolist()} qr={qr.tolist()}: with the total label updated in place to {tot.tolist()} the factors restore something that differs from the allowed part by rel {rel_err(rec, Hm):.2e}")
            for tot in totals(alpha):
                npat += 1
                mask = np.all(ql[:, None, :] + qr[None, :, :] == tot[None, None, :], axis=-1)
                any_allowed = bool(mask.any())
                if any_allowed and (len(set(lp)) > 1 or len(set(rp)) > 1):
                    nt += 1
                where = f"ql={ql.tolist()} qr={qr.tolist()} qntot={tot.tolist()}"
                for mat, fld in ((C, "real"), (Cc, "complex")):
                    Mm = np.where(mask, mat, 0)
                    # ---------- SVD (full and economic)
                    for full in (True, False):
                        ndecomp += 1
                        mode = "svd-full" if full else "svd-economic"
                        try:
                            env.reseed(seed, ("blk", lp, rp, tuple(tot.tolist()), mode))
                            U, Su, qln, V, Sv, qrn = sq.svd_qn(mat.copy(), ql, qr, tot, full_matrices=full)
                        except ValueError as e:
                            if "Invalid quantum number" in str(e) and not any_allowed:
                                continue
                            add(f"C18:blocked:{mode}:exception:ValueError", f"{where}: {e!r} although an allowed block exists={any_allowed}")
                            continue
                        except Exception as e:
                            add(f"C18:blocked:{mode}:exception:{type(e).__name__}", f"{where}: {e!r}")
                            continue
                        if not any_allowed:
                            # the library may also return an empty/neutral decomposition; nothing to reconstruct
                            continue
                        p = min(len(Su), len(Sv)) if not full else None
                        if orth_dev(U) > 1e-9 or orth_dev(V) > 1e-9:
                            add(f"C18:blocked:{mode}:not-orthonormal", f"{where} {fld}: U dev {orth_dev(U):.2e}, V dev {orth_dev(V):.2e}")
                        # label support
                        qln_a, qrn_a = np.array(qln).reshape(len(qln), -1), np.array(qrn).reshape(len(qrn), -1)
                        for j in range(U.shape[1]):
                            sup = np.abs(U[:, j]) > 1e-12
                            if np.any(np.any(ql[sup] != qln_a[j], axis=-1)):
                                add(f"C18:blocked:{mode}:label-support", f"{where} {fld}: U column {j} labelled {qln_a[j].tolist()} has support on rows labelled {ql[sup].tolist()}")
                        for j in range(V.shape[1]):
                            sup = np.abs(V[:, j]) > 1e-12
                            if np.any(np.any(qr[sup] != qrn_a[j], axis=-1)):
                                add(f"C18:blocked:{mode}:label-support", f"{where} {fld}: V column {j} labelled {qrn_a[j].tolist()} has support on rows labelled {qr[sup].tolist()}")
                        # number of paired columns = number of genuine singular values
                        if full:
                            npair = 0
                            for nl in set(map(tuple, ql.tolist())):
                                nr_ = tuple((tot - np.array(nl)).tolist())
                                a = sum(1 for x in ql.tolist() if tuple(x) == nl)
                                b = sum(1 for x in qr.tolist() if tuple(x) == nr_)
                                if b:
                                    npair += min(a, b)
                        else:
                            npair = len(Su)
                        if len(Su) < npair or len(Sv) < npair or U.shape[1] < npair or V.shape[1] < npair:
                            add(f"C18:blocked:{mode}:too-few-columns", f"{where} {fld}: {U.shape[1]}/{V.shape[1]} columns, {npair} singular values expected")
                            continue
                        if np.any(np.any(qln_a[:npair] + qrn_a[:npair] != tot, axis=-1)):
                            add(f"C18:blocked:{mode}:paired-labels", f"{where} {fld}: paired labels do not sum to qntot: {qln_a[:npair].tolist()} + {qrn_a[:npair].tolist()}")
                        if not np.allclose(Su[:npair], Sv[:npair], atol=1e-12):
                            add(f"C18:blocked:{mode}:su-sv-differ", f"{where} {fld}: {Su[:npair]} vs {Sv[:npair]}")
                        rec = (U[:, :npair] * Su[:npair]) @ V[:, :npair].T
                        if not close(rec, Mm, 1e-9, floor=1e-12):
                            add(f"C18:blocked:{mode}:reconstruction", f"{where} {fld}: U S V^T differs from the allowed part by rel {rel_err(rec, Mm):.2e}")
                        if not full:
                            if np.any(np.diff(Su) > 1e-12):
                                add("C18:blocked:svd-economic:not-sorted", f"{where} {fld}: singular values not globally sorted: {Su}")
                            ref_s = np.linalg.svd(Mm, compute_uv=False)
                            a = np.sort(Su)[::-1]
                            k = max(len(a), len(ref_s))
                            a = np.pad(a, (0, k - len(a)))
                            b = np.pad(ref_s, (0, k - len(ref_s)))
                            if not np.allclose(a, b, atol=1e-10):
                                add("C18:blocked:svd-economic:singular-values", f"{where} {fld}: {a} vs numpy {b}")
                    # ---------- QR
                    for system in ("L", "R"):
                        for full in (False, True):
                            ndecomp += 1
                            mode = f"qr-{system}-{'full' if full else 'economic'}"
                            try:
                                U, qln, V, qrn = sq.svd_qn(mat.copy(), ql, qr, tot, QR=True, system=system, full_matrices=full)
                            except ValueError as e:
                                if "Invalid quantum number" in str(e) and not any_allowed:
                                    continue
                                add(f"C18:blocked:{mode}:exception:ValueError", f"{where}: {e!r} (allowed block exists={any_allowed})")
                                continue
                            except Exception as e:
                                add(f"C18:blocked:{mode}:exception:{type(e).__name__}", f"{where}: {e!r}")
                                continue
                            if not any_allowed:
                                continue
                            iso = U if system == "L" else V
                            if orth_dev(iso) > 1e-9:
                                add(f"C18:blocked:{mode}:not-orthonormal", f"{where} {fld}: isometric factor deviates by {orth_dev(iso):.2e}")
                            k = min(U.shape[1], V.shape[1])
                            rec = U[:, :k] @ V[:, :k].T
                            if (not full or U.shape[1] == V.shape[1]) and not close(rec, Mm, 1e-9, floor=1e-12):
                                add(f"C18:blocked:{mode}:reconstruction", f"{where} {fld}: factors do not restore the allowed part (rel {rel_err(rec, Mm):.2e})")
                            qln_a, qrn_a = np.array(qln).reshape(len(qln), -1), np.array(qrn).reshape(len(qrn), -1)
                            for j in range(U.shape[1]):
                                sup = np.abs(U[:, j]) > 1e-12
                                if np.any(np.any(ql[sup] != qln_a[j], axis=-1)):
                                    add(f"C18:blocked:{mode}:label-support", f"{where} {fld}: left factor column {j} label {qln_a[j].tolist()} vs support {ql[sup].tolist()}")
                            for j in range(V.shape[1]):
                                sup = np.abs(V[:, j]) > 1e-12
                                if np.any(np.any(qr[sup] != qrn_a[j], axis=-1)):
                                    add(f"C18:blocked:{mode}:label-support", f"{where} {fld}: right factor column {j} label {qrn_a[j].tolist()} vs support {qr[sup].tolist()}")
                # ---------- eigh_qn on the reduced density matrices of the masked matrix (real case)
                if any_allowed:
                    Mm = np.where(mask, Cc, 0)
                    for system in ("L", "R"):
                        ndecomp += 1
                        dm = Mm @ Mm.conj().T if system == "L" else Mm.T @ Mm.conj()
                        try:
                            U, S, qn_new = sq.eigh_qn(dm.copy(), ql, qr, tot, system)
                        except Exception as e:
                            add(f"C18:blocked:eigh-{system}:exception:{type(e).__name__}", f"{where}: {e!r}")
                            continue
                        # the same matrix in another memory layout (Fortran order, as LAPACK-backed routines return it)
                        try:
                            Uf, Sf, _ = sq.eigh_qn(np.asfortranarray(dm), ql, qr, tot, system)
                            recf = (Uf * Sf ** 2) @ Uf.conj().T
                            if not close(recf, dm, 1e-8, floor=1e-12):
                                add(f"C18:blocked:eigh-{system}:memory-layout", f"{where}: for the Fortran-ordered copy of the same density matrix U S^2 U^+ differs from it by rel {rel_err(recf, dm):.2e}")
                        except Exception as e:
                            add(f"C18:blocked:eigh-{system}:memory-layout:exception:{type(e).__name__}", f"{where}: {e!r}")
                        side = ql if system == "L" else qr
                        if orth_dev(U) > 1e-9:
                            add(f"C18:blocked:eigh-{system}:not-orthonormal", f"{where}: dev {orth_dev(U):.2e}")
                        rec = (U * S ** 2) @ U.conj().T
                        if not close(rec, dm, 1e-8, floor=1e-12):
                            add(f"C18:blocked:eigh-{system}:reconstruction", f"{where}: U S^2 U^+ differs from the density matrix by rel {rel_err(rec, dm):.2e}")
                        qa = np.array(qn_new).reshape(len(qn_new), -1)
                        for j in range(U.shape[1]):
                            sup = np.abs(U[:, j]) > 1e-12
                            if np.any(np.any(side[sup] != qa[j], axis=-1)):
                                add(f"C18:blocked:eigh-{system}:label-support", f"{where}: column {j} label {qa[j].tolist()} vs support {side[sup].tolist()}")
                        # only sectors that have a partner on the other side are symmetry-allowed: one column per allowed basis state,
                        # every returned label has its partner, and a density matrix WITH weight in forbidden sectors is projected
                        other = qr if system == "L" else ql
                        totv = np.asarray(tot).reshape(-1)
                        has_partner = np.array([np.any(np.all(other == (totv - lab), axis=-1)) for lab in side])
                        if U.shape[1] != int(has_partner.sum()):
                            add(f"C18:blocked:eigh-{system}:column-count", f"{where}: {U.shape[1]} columns returned, {int(has_partner.sum())} symmetry-allowed basis states")
                        for j in range(len(qa)):
                            if not np.any(np.all(other == (totv - qa[j]), axis=-1)):
                                add(f"C18:blocked:eigh-{system}:label-without-partner", f"{where}: returned label {qa[j].tolist()} has no partner on the other side (total {totv.tolist()})")
                                break
                        dmf = Cc @ Cc.conj().T if system == "L" else Cc.T @ Cc.conj()
                        blk = has_partner[:, None] & has_partner[None, :] & np.all(side[:, None, :] == side[None, :, :], axis=-1)
                        try:
                            U2, S2, _ = sq.eigh_qn(dmf.copy(), ql, qr, tot, system)
                            rec2 = (U2 * S2 ** 2) @ U2.conj().T
                            if not close(rec2, np.where(blk, dmf, 0), 1e-8, floor=1e-12):
                                add(f"C18:blocked:eigh-{system}:projection", f"{where}: U S^2 U^+ of an unrestricted density matrix differs from its symmetry-allowed part by rel {rel_err(rec2, np.where(blk, dmf, 0)):.2e}")
                        except Exception as e:
                            add(f"C18:blocked:eigh-{system}:exception:{type(e).__name__}", f"{where} (unrestricted density matrix): {e!r}")
    return {"nt_count": nt, "eval_count": npat, "counters": {"decompositions": ndecomp}, "outcome": f"blocked:{l}x{r}:{alpha}:{'viol' if viol else 'ok'}",
            "viol": list(viol.values()), "sample": {"desc": desc, "first_left_pattern": list(lpats[0])}}


def run_case(desc, seed):
    if desc["k"] == "krylov":
        return run_krylov(desc, seed)
    return run_blocked(desc, seed)
