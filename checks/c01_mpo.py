"""C01 -- automatic MPO construction is exact for every sum-of-products operator; adjacent swaps keep the operator.

E1 (stateless input enumeration).  Spaces (see mc/tables.py):
 (a) term tables over a spin chain and an electron/phonon chain with labels: all tables with k rows over the per-site
     alphabets (ordered tuples for k<=2, multisets beyond), duplicates allowed, factor assignments {1,-1,.5}^k (k<=2),
     rotating wide factors beyond, offset in {0, 0.7}, all three algorithms, factors listed in ascending and descending
     site order;
 (b) model shapes: every tuple of basis kinds of length <= n with every table of k<=2;
 (c) swaps: every sequence of adjacent transpositions up to a length through Mpo.try_swap_site(swap_jw=False).
Oracle: sum_k c_k kron(local matrices) - offset*I assembled with np.kron (local matrices from BasisSet.op_mat, which is
C16's subject).  Exactly-zero references are outside the quantifier (skipped, counted).
"""
import functools
import itertools

import numpy as np

from mc import env  # noqa: F401
from mc.ref.dense import close, rel_err
from mc import tables as T

ID = "C01"
LEVEL = "exploration"
RULE = ("one case = (basis-kind tuple, alphabet size, table rows, factors, offset, swap sequence); each case builds the Mpo "
        "with qr / Hopcroft-Karp / Hungarian (terms listed in ascending and descending site order) and compares todense() "
        "with the dense Kronecker sum; non-trivial = reference operator non-zero AND (some bond dimension > 1 or a single "
        "term); distinct = distinct descriptor")
ASSUMPTIONS = [
    "local matrices are taken from BasisSet.op_mat (subject of C16); everything above them is np.kron",
    "factor alphabet {1,-1,0.5,2.5e-3,7e2,0.3+0.4j}; values stay >=5 orders away from the library cut-offs 1e-15/1e-10",
    "relative tolerance 1e-9",
    "tables whose dense reference is exactly zero are not in the quantifier (skipped and counted)",
]
ALGOS = ["qr", "Hopcroft-Karp", "Hungarian"]
TOL = 1e-9
HORIZON_S = 120


def BOUND(tier):
    if tier == "quick":
        return {"a": {"n": "1..3", "s": 2, "k": "<=3 (k=3: one factor rotation)"}, "b": {"n<=2": "9 kinds, s=2, k<=2",
                "n=3": "6 kinds, s=1, k<=2"}, "c": {"n": 3, "swap_len": 2, "k": "<=2"}}
    return {"a": {"n": "1..4", "s": "2 (n<=4), 3 (n<=3)", "k": "<=4"}, "b": {"n<=3": "9 kinds", "n=4": "5 kinds, s=1, k<=2"},
            "c": {"n": "3..4", "swap_len": 3, "k": "<=3"}}


K1_FULL = ["S", "Sq", "B", "B2", "B1", "Bx", "E", "V", "Mu"]
K1_QUICK = ["S", "Sq", "B", "Bx", "E", "V"]
K1_FIVE = ["S", "B", "Bx", "E", "V"]


def chain_kinds(name, n):
    if name == "spin":
        return ["S"] * n
    if name == "eph":
        return [["E", "B"][i % 2] for i in range(n)]
    if name == "spinq":
        return ["Sq"] * n
    if name == "two":
        return [["S2a", "S2b"][i % 2] for i in range(n)]
    raise ValueError(name)


@functools.lru_cache(maxsize=4096)
def family(kinds, s):
    return T.Family(kinds, s)


UNIT_OFFSETS = [(1.5, "eV"), (250.0, "meV"), (1200.0, "cm-1"), (1200.0, "cm^{-1}"), (300.0, "K"), (0.37, "a.u."), (-0.11, "au"), (1.5, "ev")]
UNIT_IN_AU = {"ev": 1 / 27.211386245988, "mev": 1e-3 / 27.211386245988, "cm-1": 1 / 219474.6313632, "cm^{-1}": 1 / 219474.6313632,
              "k": 1 / 315775.02480407, "a.u.": 1.0, "au": 1.0}


def _emit(kinds, s, table, factors, offset, swaps=()):
    return {"kinds": list(kinds), "s": s, "table": [list(r) for r in table], "factors": [_jf(f) for f in factors],
            "offset": offset, "swaps": [int(x) for x in swaps]}


def _jf(f):
    if isinstance(f, complex):
        return {"re": f.real, "im": f.imag}
    return float(f)


def _uf(f):
    if isinstance(f, dict):
        return complex(f["re"], f["im"])
    return float(f)


def cases(tier, seed):
    from mc import rebuild as RB
    for h in RB.histories(tier):
        yield {"history": h}
    for e1, e2 in itertools.product(RB.inplace_edits(), repeat=2):
        yield {"history": ["inplace", e1, e2]}
    for a, b in itertools.permutations(RB.regroupings(), 2):
        yield {"history": ["regroup", a, b]}
    # the constant offset handed over in every unit the Quantity class accepts (conversion constants of the reference are CODATA
    # values written here, compared at 1e-6)
    for kinds in (("S", "S"), ("E", "B", "E")):
        fam = family(kinds, 2)
        rows = fam.rows()
        table = [rows[1], rows[-1]]
        for val, unit in UNIT_OFFSETS:
            yield _emit(kinds, 2, table, [1.0, -0.5], [val, unit])
        # complex prefactors that are ALMOST real (a hopping amplitude with a Peierls phase of 1e-6 ...): the tiny imaginary parts are data
        for t in (table, [rows[1], rows[2], rows[-1]][:len(rows)]):
            for fs in ([1.0 + 2e-6j, -0.5 - 1e-6j, 0.25 + 3e-7j], [1.0 + 2e-9j, -0.5 + 1e-9j, 0.25 - 1e-9j], [complex(1.0, 0.0), complex(-0.5, 0.0), complex(0.25, 0.0)]):
                yield _emit(kinds, 2, t, fs[:len(t)], 0.0)
        # the whole operator in very small / very large units (all prefactors of order 1e-11, 1e-20, 1e+12): an operator is linear in its
        # prefactors, the construction must not depend on their scale (agreement is judged relative to the largest entry)
        tabs = [[rows[1]], table, [rows[1], rows[2], rows[-1]][:len(rows)]]
        for t in tabs:
            for scale in (1e-11, 1e-20, 1e12):
                yield _emit(kinds, 2, t, [f * scale for f in (1.0, -0.5, 0.25)][:len(t)], 0.0)
                if len(kinds) == 3:
                    yield _emit(kinds, 2, t, [f * scale for f in (1.0, -0.5, 0.25)][:len(t)], 0.0, (0, 1))
    yield from cases_(tier, seed)


def cases_(tier, seed):
    quick = tier == "quick"
    # ---------------- (a) term tables
    for name in ("spin", "eph", "spinq", "two"):
        nmax = 3 if quick else 4
        for n in range(1, nmax + 1):
            svals = [2] if (quick or n == 4) else [2, 3]
            if name in ("spinq", "two") and not quick and n == 4:
                continue
            for s in svals:
                kinds = tuple(chain_kinds(name, n))
                fam = family(kinds, s)
                nrows = len(fam.rows())
                kmax = 3 if quick else 4
                if name in ("spinq", "two"):
                    kmax = 2 if quick else 3
                if s == 3:
                    kmax = 2 if n == 3 else 3
                # keep the largest blocks inside the budget
                if nrows > 30 and kmax > 3:
                    kmax = 3
                if n == 4:
                    kmax = 2
                for t in T.tables(fam, kmax):
                    k = len(t)
                    fas = T.factor_assignments(k)
                    if k >= 3:
                        fas = fas[:1] if quick else fas[:3]
                    elif k == 2 and quick and n == 3 and t[0] != t[1]:
                        # distinct rows cannot cancel: two assignments suffice in the quick tier (all nine in thorough)
                        fas = [[1.0, -1.0], [0.5, 1.0]]
                    for ifa, fa in enumerate(fas):
                        if k <= 2:
                            offs = [0.0, 0.7]
                        else:
                            offs = [0.7 if (ifa + sum(map(sum, t))) % 2 else 0.0]
                        for off in offs:
                            yield _emit(kinds, s, t, fa, off)
                # complex factors: one complex entry per table, k<=2
                for t in T.tables(fam, min(kmax, 2)):
                    fa = [0.3 + 0.4j] + [1.0] * (len(t) - 1)
                    yield _emit(kinds, s, t, fa, 0.0)
    # complex local matrices with real factors (sigma_y, p)
    for kinds in (("Sy", "Sy"), ("Bp", "S"), ("S", "Sy", "Bp")):
        fam = family(tuple(kinds), 2)
        for t in T.tables(fam, 2 if len(kinds) < 3 or not quick else 1):
            yield _emit(kinds, 2, t, [1.0, -0.5][:len(t)], 0.0)
            yield _emit(kinds, 2, t, [0.3 + 0.4j, 1.0][:len(t)], 0.0)
    # ---------------- (b) model shapes
    for n in (1, 2):
        for kinds in itertools.product(K1_FULL, repeat=n):
            fam = family(tuple(kinds), 2)
            for t in T.tables(fam, 2):
                yield _emit(kinds, 2, t, [1.0, 0.5][:len(t)], 0.7 if len(t) == 2 else 0.0)
    for kinds in itertools.product(K1_QUICK if quick else K1_FULL, repeat=3):
        fam = family(tuple(kinds), 1)
        for t in T.tables(fam, 2):
            yield _emit(kinds, 1, t, [1.0, -0.5][:len(t)], 0.0)
    if not quick:
        for kinds in itertools.product(K1_FIVE, repeat=4):
            fam = family(tuple(kinds), 1)
            for t in T.tables(fam, 2):
                yield _emit(kinds, 1, t, [1.0, -0.5][:len(t)], 0.0)
    # ---------------- (c) swaps
    for name in ("spin", "eph", "spinq"):
        for n in ((3,) if quick else (3, 4)):
            kinds = tuple(chain_kinds(name, n))
            fam = family(kinds, 2)
            kmax = 2 if (quick or n == 4) else 3
            L = 2 if quick else 3
            seqs = [sq for ln in range(1, L + 1) for sq in itertools.product(range(n - 1), repeat=ln)]
            for t in T.tables(fam, kmax):
                k = len(t)
                if n == 4 and k == 2 and (sum(map(sum, t)) % 3):
                    continue  # n=4,k=2: every third table (stated in BOUND) -- keeps thorough inside its budget
                fa = [1.0, -0.5, 2.5e-3][:k]
                for sq in seqs:
                    if n == 4 and len(sq) == 3 and k == 2:
                        continue
                    yield _emit(kinds, 2, t, fa, 0.0, sq)


def run_history(desc, seed):
    """(d) construction histories in one process: see mc/rebuild.py"""
    from renormalizer.model import Model
    from renormalizer.mps import Mpo
    from mc import rebuild as RB
    V = RB.variants()
    viol = {}
    nb = 0
    if desc["history"][0] == "inplace":
        # ONE model object and ONE term-list object; the list is edited in place between the constructions
        basis = V["sho"]
        edits = RB.inplace_edits()
        for algo in ("qr", "Hopcroft-Karp"):
            # one history per algorithm: the same model object and the same list object all along
            ham = RB.ops_of(basis)
            model = Model(list(basis), [])
            for step, ed in enumerate([None] + list(desc["history"][1:])):
                if ed is not None:
                    edits[ed](ham)
                ref = RB.dense_of_ops(basis, ham)
                try:
                    got = np.asarray(Mpo(model, ham, algo=algo).todense())
                except Exception as e:
                    sig = f"C01:history:inplace:exception:{type(e).__name__}"
                    viol.setdefault(sig, {"sig": sig, "msg": f"history {desc['history']} step {step} ({algo}): {e!r}"})
                    continue
                nb += 1
                if not close(got, ref, 1e-9):
                    sig = f"C01:history:inplace:mismatch:{'first' if step == 0 else 'later'}-construction"
                    viol.setdefault(sig, {"sig": sig, "msg": f"same model, same term list edited in place ({desc['history'][1:step + 1]}): construction {step + 1} ({algo}) differs from the dense sum of the CURRENT list by rel {rel_err(got, ref):.2e}"})
        return {"nontrivial": nb >= 2, "counters": {"history_constructions": nb}, "outcome": f"history:{'viol' if viol else 'ok'}", "viol": list(viol.values()), "sample": {"desc": desc}}
    if desc["history"][0] == "regroup":
        # the SAME Op objects, first for one grouping of the dofs into sites, then for another
        G = RB.regroupings()
        terms = RB.regroup_terms()
        for step, name in enumerate(desc["history"][1:]):
            basis = G[name]
            ref = RB.dense_of_ops(basis, terms)
            for algo in ("qr", "Hopcroft-Karp"):
                try:
                    got = np.asarray(Mpo(Model(list(basis), []), terms, algo=algo).todense())
                except Exception as e:
                    sig = f"C01:history:regroup:exception:{type(e).__name__}:{'first' if step == 0 else 'later'}"
                    viol.setdefault(sig, {"sig": sig, "msg": f"history {desc['history']} step {step} ({name}, {algo}): {e!r}"})
                    continue
                nb += 1
                if not close(got, ref, 1e-9):
                    sig = f"C01:history:regroup:mismatch:{'first' if step == 0 else 'later'}-construction"
                    viol.setdefault(sig, {"sig": sig, "msg": f"the same Op objects used for {desc['history'][1:]}: construction {step + 1} ({name}, {algo}) differs from its dense reference by rel {rel_err(got, ref):.2e}"})
        return {"nontrivial": nb >= 2, "counters": {"history_constructions": nb}, "outcome": f"history:{'viol' if viol else 'ok'}", "viol": list(viol.values()), "sample": {"desc": desc}}
    for step, name in enumerate(desc["history"]):
        basis = V[name]
        ref = RB.dense_of(basis)
        for algo in ("qr", "Hopcroft-Karp"):
            try:
                got = np.asarray(Mpo(Model(list(basis), RB.ops_of(basis)), algo=algo).todense())
            except Exception as e:
                sig = f"C01:history:exception:{type(e).__name__}"
                viol.setdefault(sig, {"sig": sig, "msg": f"history {desc['history']} step {step} ({name}, {algo}): {e!r}"})
                continue
            nb += 1
            if not close(got, ref, 1e-9):
                sig = f"C01:history:mismatch:{'first' if step == 0 else 'later'}-construction"
                viol.setdefault(sig, {"sig": sig, "msg": f"history {desc['history']}: operator number {step + 1} ({name}, {algo}) differs from its dense reference by rel {rel_err(got, ref):.2e}"})
    return {"nontrivial": nb >= 2, "counters": {"history_constructions": nb}, "outcome": f"history:{'viol' if viol else 'ok'}", "viol": list(viol.values()),
            "sample": {"desc": desc}}


def run_case(desc, seed):
    if "history" in desc:
        return run_history(desc, seed)
    from renormalizer.model import Model
    from renormalizer.mps import Mpo
    from renormalizer.utils import Quantity
    kinds = tuple(desc["kinds"])
    fam = family(kinds, desc["s"])
    table = [tuple(r) for r in desc["table"]]
    factors = [_uf(f) for f in desc["factors"]]
    offset = desc["offset"]
    swaps = desc["swaps"]
    tol = TOL
    if isinstance(offset, (list, tuple)):
        q_offset = Quantity(offset[0], offset[1])
        offset = offset[0] * UNIT_IN_AU[offset[1].lower()]
        tol = 1e-6
    else:
        q_offset = Quantity(offset)
    ref = fam.dense(table, factors, offset)
    if np.abs(ref).max() == 0:
        return {"skipped": 1, "outcome": "zero-reference"}
    has_complex_local = any(np.iscomplexobj(fam.local_matrix(i, idx)) and np.abs(np.imag(fam.local_matrix(i, idx))).max() > 0
                            for r in table for i, idx in enumerate(r))
    real_factors = all(not isinstance(f, complex) for f in factors)
    viol = []
    nontrivial = False
    bonds_seen = []
    algos = ALGOS if not swaps else ["Hopcroft-Karp", "qr", "Hungarian"]
    for algo in algos:
        # the descending-site listing exercises Op.split_elementary, which is algorithm independent: once is enough
        for reverse in ((False, True) if (not swaps and algo == "qr") else (False,)):
            tag = f"{algo}"
            try:
                model = Model(list(fam.basis), [])
                terms = [fam.term(r, f, reverse=reverse) for r, f in zip(table, factors)]
                mpo = Mpo(model, terms, offset=q_offset, algo=algo)
                dense = mpo.todense()
            except Exception as e:
                cls = "complex-local-matrix-with-real-factors" if (has_complex_local and real_factors) else "other"
                viol.append({"sig": f"C01:construct:exception:{cls}:{type(e).__name__}",
                             "msg": f"Mpo(..., algo={algo}, reverse_listing={reverse}) raised {e!r}"})
                continue
            if not close(dense, ref, tol):
                viol.append({"sig": f"C01:construct:mismatch:{tag}" + (":offset-with-unit" if tol != TOL else ""),
                             "msg": f"algo={algo} reverse_listing={reverse}: todense differs from dense sum, rel err {rel_err(dense, ref):.3e}; bond dims {mpo.bond_dims}"})
                continue
            bd = list(mpo.bond_dims)
            bonds_seen.append(tuple(bd))
            if max(bd) > 1 or len(table) == 1:
                nontrivial = True
            if bd[0] != 1 or bd[-1] != 1:
                viol.append({"sig": "C01:construct:boundary-bond", "msg": f"boundary bond dims {bd}"})
            if swaps and not reverse:
                order = list(range(fam.n))
                basis = list(fam.basis)
                try:
                    for p in swaps:
                        basis[p], basis[p + 1] = basis[p + 1], basis[p]
                        order[p], order[p + 1] = order[p + 1], order[p]
                        new_model = Model(list(basis), [])
                        mpo.try_swap_site(new_model, swap_jw=False, algo=algo)
                    dense2 = mpo.todense()
                except Exception as e:
                    cls = "single-term" if len(set(table)) == 1 else "multi-term"
                    viol.append({"sig": f"C01:swap:exception:{cls}:{type(e).__name__}",
                                 "msg": f"try_swap_site sequence {swaps} algo={algo} raised {e!r}"})
                    continue
                ref2 = fam.dense(table, factors, offset, order=order)
                if not close(dense2, ref2, TOL):
                    viol.append({"sig": f"C01:swap:mismatch:{tag}",
                                 "msg": f"after swaps {swaps} (new order {order}) rel err {rel_err(dense2, ref2):.3e}"})
                if [b.dofs for b in mpo.model.basis] != [fam.basis[i].dofs for i in order]:
                    viol.append({"sig": "C01:swap:model-order", "msg": "mpo.model.basis not in the swapped order"})
    out = "ok" if not viol else "viol"
    return {"nontrivial": nontrivial and not viol, "outcome": f"{out}:bonds={sorted(set(bonds_seen))[:2]}", "viol": viol,
            "sample": {"kinds": list(kinds), "table": desc["table"], "factors": desc["factors"], "offset": offset,
                       "swaps": swaps, "bond_dims": [list(b) for b in sorted(set(bonds_seen))[:3]]}}
