"""C07 -- observables computed from the network equal their dense definitions.   (E1)

States: {real, complex, un-normalised, prefactor != 1} x gauges {left-canonical, right-canonical, centre moved to the middle,
non-canonical sum}, and density-operator form.  Operator alphabet of MPOs built to collide in the cached-environment fast
path (identical operators built twice, shared prefix, shared suffix, differing at exactly one site, complex factor,
multi-site, identity).  EVERY operator list of length <= L over the alphabet, in every order, with bra = self and bra =
another state:   expectations(opt=True) == expectations(opt=False) == dense <phi|O|psi>, element by element.
Reduced density matrices of every site and every site pair, one-site / two-site / mutual / bond entropies, electronic and
vibrational occupations and the electronic reduced density matrix (called twice: they cache operators per model) against
dense partial traces,  rho = Tr_rest |Psi><Psi|,  rho[a,b] = sum_r psi[a,r] conj(psi[b,r]).
"""
import functools
import itertools

import numpy as np

from mc import env  # noqa: F401
from mc.chains import Chain, sectors
from mc.machine import dense_of
from mc.ref.dense import close, rel_err, kron_all, partial_trace_keep, site_op

ID = "C07"
LEVEL = "exploration"
RULE = ("list cases: one case = (family, state variant, bra variant, first operator of the list) running every operator list of length <= L that starts with it; "
        "rdm cases: one case = (family, state variant); non-trivial = state with a bond > 1 and at least one non-zero expectation value; distinct = distinct descriptor; "
        "counters give the number of lists compared")
ASSUMPTIONS = [
    "expectation(s) are defined on the tensor part (they ignore the scalar prefactor), like the library's own callers (BraKetPair multiplies the prefactors itself)",
    "PYTHONHASHSEED is fixed: the fast path keys its cache on hashes of tensor bytes",
    "entropies are those of the normalised reduced density matrices (the library normalises the eigenvalues)",
    "tolerance 1e-9 relative to max(1, |value|)",
]
HORIZON_S = 600
HEAVY_CASES = True
DM_VARIANTS = ["mpdm", "mpdm-complex", "mpdm-complex-left"]
NALPHA = 9
STATE_VARIANTS = ["real-left", "real-right", "real-mid", "complex-left", "complex-right", "complex-sum", "scaled-coeff", "complex-mid"]


def COST(desc):
    return 5 if desc["k"] == "lists" else 2


def BOUND(tier):
    return {"families": ["eph n=4 sector 1", "elec n=4 sector 2", "spin n=3"], "list_length": 3 if tier == "quick" else 4, "alphabet": NALPHA,
            "state_variants": STATE_VARIANTS + DM_VARIANTS, "bra": "self and another state (density-operator form: another complex density operator)"}


def cases(tier, seed):
    fams = [("eph", 4, [1]), ("elec", 4, [2]), ("spin", 3, [0])]
    for fam, n, sec in fams:
        for sv in STATE_VARIANTS + DM_VARIANTS:
            yield {"k": "rdm", "fam": fam, "n": n, "sector": sec, "state": sv}
            for bra in ("self", "other"):
                if sv == "mpdm" and bra == "other":
                    continue
                for first in range(NALPHA):
                    if tier == "quick" and fam != "eph" and sv not in ("complex-right", "complex-sum", "real-left", "mpdm", "mpdm-complex"):
                        continue
                    yield {"k": "lists", "fam": fam, "n": n, "sector": sec, "state": sv, "bra": bra, "first": first, "L": 3 if tier == "quick" else 4}


def make_state(ch, sec, variant, tag):
    from renormalizer.mps import MpDm
    m = 8 if ch.family == "two" else 4
    cplx = variant.startswith("complex") or variant == "scaled-coeff"
    s = ch.random_mps(sec, m, tag, cplx=cplx)
    if variant.endswith("right"):
        s.ensure_right_canonical()
    elif variant.endswith("mid"):
        s.move_qnidx(ch.n // 2)
    elif variant == "complex-sum":
        s = s.add(ch.random_mps(sec, 3, tag + "2").scale(0.5))
    elif variant == "scaled-coeff":
        s = s.scale(1.7)
        s.coeff = 0.5j
    elif variant == "mpdm":
        s = ch.mpo_neutral().apply(MpDm.from_mps(ch.random_mps(sec, m, tag)))
    elif variant.startswith("mpdm-complex"):
        # a genuinely complex density operator (what real-time evolution or a complex operator leaves behind), not canonical
        from renormalizer.mps import Mpo
        from renormalizer.model import Op
        cop = Mpo(ch.new_model(), [Op(t.symbol, t.dofs, t.factor * (0.3 + 0.4j) ** (k % 3), t.qn_list) for k, t in enumerate(ch.h_terms)])
        s = cop.apply(MpDm.from_mps(ch.random_mps(sec, m, tag, cplx=True)))
        if variant.endswith("left"):
            s.ensure_left_canonical()
    return s


def hop(ch):
    """a sector-conserving operator whose matrix on the first site is not symmetric"""
    from renormalizer.model import Op
    b = ch.basis
    if b[0].is_spin:
        return Op("sigma_+ sigma_-", [b[0].dofs[0], b[1].dofs[0]], 0.9)
    el = [bs.dofs[0] for bs in b if bs.is_electron]
    return Op(r"a^\dagger a", [el[0], el[1]], 0.9, [1, -1])


def alphabet(ch):
    """nine MPOs on the same model, built to collide in the cached-environment fast path"""
    from renormalizer.mps import Mpo
    from renormalizer.model import Op
    n = ch.n
    H = ch.h_terms
    b = ch.basis
    def local(i, k=0):
        bs = b[i]
        if bs.is_phonon:
            return Op(["x", r"b^\dagger b"][k % 2], bs.dofs[0] if k % 2 == 0 else [bs.dofs[0]] * 2, 0.7)
        if bs.is_spin:
            return Op(["sigma_z", "sigma_x"][k % 2], bs.dofs[0], 0.7)
        return Op(r"a^\dagger a", [bs.dofs[0]] * 2, 0.7)
    ops = [
        list(H),                                   # 0
        list(H),                                   # 1 identical operator, built separately
        list(H) + [local(n - 1, 1)],               # 2 shares a prefix with H
        [local(0, 1)] + list(H),                   # 3 shares a suffix with H
        list(H) + [local(n // 2, 1)],              # 4 differs from H at exactly one site (middle)
        [Op(t.symbol, t.dofs, t.factor * (0.3 + 0.4j), t.qn_list) for t in H[:3]] + [local(1)],   # 5 complex factors
        [local(0) * local(n - 1) if True else None],   # 6 multi-site product
        [Op.identity(b[0].dofs[0], qn_size=ch.qn_size)],  # 7 identity
        [hop(ch)],                                 # 8 not symmetric on the first site (and not hermitian)
    ]
    mpos = []
    for t in ops:
        mpos.append(Mpo(ch.new_model(), t))
    return mpos


def run_lists(desc, seed):
    ch = Chain(desc["fam"], desc["n"], seed)
    sec = desc["sector"]
    psi = make_state(ch, sec, desc["state"], "psi")
    is_dm = desc["state"].startswith("mpdm")
    if desc["bra"] == "self":
        phi = None
    else:
        phi = make_state(ch, sec, "mpdm-complex" if is_dm else "complex-right", "phi")
    mpos = alphabet(ch)
    dens = [np.asarray(m.todense()) for m in mpos]
    vpsi = dense_of(psi, with_coeff=False)
    vphi = vpsi if phi is None else dense_of(phi, with_coeff=False)

    def dense_val(i):
        if is_dm:
            # density-operator form: Tr(rho^dagger O rho) with rho the represented matrix
            return np.trace(vphi.conj().T @ dens[i] @ vpsi)
        return np.vdot(vphi, dens[i] @ vpsi)
    ref = [dense_val(i) for i in range(len(mpos))]
    viol = {}
    nlists = 0
    nonzero = any(abs(r) > 1e-12 for r in ref)
    L = desc["L"]
    first = desc["first"]
    kw = {} if phi is None else {"self_conj": phi.conj()}
    for length in range(1, L + 1):
        for rest in itertools.product(range(len(mpos)), repeat=length - 1):
            idxs = (first,) + rest
            lst = [mpos[i] for i in idxs]
            want = np.array([ref[i] for i in idxs])
            nlists += 1
            try:
                fast = np.asarray(psi.expectations(lst, **kw))
                slow = np.asarray(psi.expectations(lst, opt=False, **kw)) if length <= 2 else None
            except Exception as e:
                add(viol, f"C07:expectations:exception:{type(e).__name__}", f"{desc} list {idxs}: {e!r}")
                continue
            if fast.shape != want.shape or np.abs(fast - want).max() > 1e-9 * max(1.0, np.abs(want).max()):
                add(viol, f"C07:expectations:fast-path-vs-dense:{'bra=self' if phi is None else 'bra=other'}",
                    f"{desc} list {idxs}: fast path {fast} vs dense {want}")
            if slow is not None and (slow.shape != want.shape or np.abs(slow - want).max() > 1e-9 * max(1.0, np.abs(want).max())):
                add(viol, f"C07:expectations:one-by-one-vs-dense:{'bra=self' if phi is None else 'bra=other'}",
                    f"{desc} list {idxs}: one-by-one path {slow} vs dense {want}")
    # single expectation() and Op / OpSum inputs
    try:
        for i in range(len(mpos)):
            e = psi.expectation(mpos[i], **kw)
            if abs(e - ref[i]) > 1e-9 * max(1.0, abs(ref[i])):
                add(viol, "C07:expectation:vs-dense", f"{desc} operator {i}: {e} vs {ref[i]}")
        if not is_dm and phi is None:
            from renormalizer.model import OpSum
            e = psi.expectation(OpSum(ch.h_terms))
            if abs(e - ref[0]) > 1e-9 * max(1.0, abs(ref[0])):
                add(viol, "C07:expectation:OpSum-input", f"{desc}: {e} vs {ref[0]}")
    except Exception as e:
        add(viol, f"C07:expectation:exception:{type(e).__name__}", f"{desc}: {e!r}")
    return {"nontrivial": max(psi.bond_dims) > 1 and nonzero, "counters": {"operator_lists": nlists}, "outcome": f"lists:{'viol' if viol else 'ok'}",
            "viol": list(viol.values()), "sample": {"desc": desc, "lists": nlists}}


def add(viol, sig, msg):
    if sig not in viol:
        viol[sig] = {"sig": sig, "msg": msg}


def ent(dm):
    w = np.linalg.eigvalsh((dm + dm.conj().T) / 2)
    w = w / w.sum()
    w = w[w > 1e-14]
    return float(-(w * np.log(w)).sum())


def run_rdm(desc, seed):
    ch = Chain(desc["fam"], desc["n"], seed)
    sec = desc["sector"]
    psi = make_state(ch, sec, desc["state"], "psi")
    is_dm = desc["state"].startswith("mpdm")
    viol = {}
    n = ch.n
    dims = ch.dims
    v = dense_of(psi, with_coeff=False)
    cls = "complex" if np.iscomplexobj(v) and np.abs(np.imag(v)).max() > 1e-12 else "real"
    if is_dm:
        # purification: the physical reduced density matrix of rho rho^dagger; site/pair RDMs trace the ancilla as well
        D = int(np.prod(dims))
        vec = v.reshape(dims + dims)              # up indices then down indices
        def rdm_keep(keep):
            nn = len(dims)
            rest = [i for i in range(nn) if i not in keep]
            t = np.transpose(vec, list(keep) + rest + [nn + i for i in range(nn)])
            dk = int(np.prod([dims[i] for i in keep]))
            t = t.reshape(dk, -1)
            return t @ t.conj().T
    else:
        def rdm_keep(keep):
            return partial_trace_keep(v, dims, list(keep))
    try:
        r1 = psi.calc_1site_rdm()
        for i in range(n):
            ref = rdm_keep([i])
            if not close(r1[i], ref, 1e-9):
                t_ok = close(r1[i], ref.T, 1e-9)
                add(viol, f"C07:calc_1site_rdm:{'transposed' if t_ok else 'mismatch'}:{cls}", f"{desc}: site {i}: rel err {rel_err(r1[i], ref):.2e}" + (" (equals the transpose = complex conjugate of the documented matrix)" if t_ok else ""))
        r1b = psi.calc_1site_rdm(idx=[0, n - 1])
        if sorted(r1b) != [0, n - 1] and n > 1:
            add(viol, "C07:calc_1site_rdm:idx", f"{desc}: keys {sorted(r1b)}")
        r2 = psi.calc_2site_rdm()
        for (i, j), m in r2.items():
            ref = rdm_keep([i, j])
            if not close(m, ref, 1e-9):
                t_ok = close(m, ref.T, 1e-9)
                add(viol, f"C07:calc_2site_rdm:{'transposed' if t_ok else 'mismatch'}:{cls}", f"{desc}: pair {(i, j)}: rel err {rel_err(m, ref):.2e}" + (" (equals the transpose)" if t_ok else ""))
        if sorted(r2) != sorted((i, j) for i in range(n) for j in range(i + 1, n)):
            add(viol, "C07:calc_2site_rdm:keys", f"{desc}: {sorted(r2)}")
        e1 = psi.calc_entropy("1site")
        for i in range(n):
            if abs(e1[i] - ent(rdm_keep([i]))) > 1e-7:
                add(viol, "C07:entropy:1site", f"{desc}: site {i}: {e1[i]} vs {ent(rdm_keep([i]))}")
        e2 = psi.calc_entropy("2site")
        for (i, j), val in e2.items():
            if abs(val - ent(rdm_keep([i, j]))) > 1e-7:
                add(viol, "C07:entropy:2site", f"{desc}: pair {(i, j)}: {val} vs {ent(rdm_keep([i, j]))}")
        mu = psi.calc_entropy("mutual")
        for i in range(n):
            for j in range(i + 1, n):
                ref = (ent(rdm_keep([i])) + ent(rdm_keep([j])) - ent(rdm_keep([i, j]))) / 2
                if abs(mu[i, j] - ref) > 1e-7 or abs(mu[j, i] - ref) > 1e-7:
                    add(viol, "C07:entropy:mutual", f"{desc}: pair {(i, j)}: {mu[i, j]} vs {ref}")
        if not is_dm:
            be = psi.calc_entropy("bond")
            sv = psi.calc_bond_singular_values()
            for b in range(1, n):
                M_ = v.reshape(int(np.prod(dims[:b])), -1)
                s = np.linalg.svd(M_, compute_uv=False)
                p = s ** 2 / np.sum(s ** 2)
                p = p[p > 1e-14]
                ref = float(-(p * np.log(p)).sum())
                if abs(be[b - 1] - ref) > 1e-7:
                    add(viol, "C07:entropy:bond", f"{desc}: bond {b}: {be[b - 1]} vs {ref}")
                got = np.sort(np.asarray(sv[b - 1]))[::-1]
                k = max(len(got), len(s))
                if not np.allclose(np.pad(got, (0, k - len(got))), np.pad(s, (0, k - len(s))), atol=1e-9 * max(1, s.max())):
                    add(viol, "C07:bond-singular-values", f"{desc}: bond {b}: {got} vs {s}")
    except Exception as e:
        import sys
        import traceback
        tb = traceback.extract_tb(sys.exc_info()[2])
        lib = [f.name for f in tb if "/renormalizer/" in f.filename]
        add(viol, f"C07:rdm-entropy:exception:{type(e).__name__}:{lib[-1] if lib else '?'}", f"{desc}: {e!r}")
    # occupations and electronic RDM, called twice (operator cache per model)
    try:
        model = psi.model
        for rep in range(2):
            if model.n_edofs:
                eo = np.asarray(psi.e_occupations)
                ref = []
                for dof in model.e_dofs:
                    i = model.dof_to_siteidx[dof]
                    num = np.asarray(model.basis[i].op_mat(r"a^\dagger a")) if not model.basis[i].multi_dof else None
                    O = site_op(num, i, dims)
                    ref.append(np.trace(v.conj().T @ O @ v) if is_dm else np.vdot(v, O @ v))
                if np.abs(eo - np.array(ref)).max() > 1e-9:
                    add(viol, "C07:e_occupations", f"{desc} call {rep + 1}: {eo} vs {np.array(ref)}")
                if not is_dm:
                    er = np.asarray(psi.calc_edof_rdm())
                    ne = model.n_edofs
                    refm = np.zeros((ne, ne), dtype=complex)
                    for a_, d1 in enumerate(model.e_dofs):
                        for b_, d2 in enumerate(model.e_dofs):
                            i, j = model.dof_to_siteidx[d1], model.dof_to_siteidx[d2]
                            cre = np.asarray(model.basis[i].op_mat(r"a^\dagger"))
                            ann = np.asarray(model.basis[j].op_mat("a"))
                            O = site_op(cre, i, dims) @ site_op(ann, j, dims) if i != j else site_op(cre @ ann, i, dims)
                            refm[a_, b_] = np.vdot(v, O @ v)
                    if np.abs(er - refm).max() > 1e-9:
                        add(viol, "C07:calc_edof_rdm", f"{desc} call {rep + 1}: max dev {np.abs(er - refm).max():.2e}")
            if model.n_vdofs:
                po = np.asarray(psi.ph_occupations)
                ref = []
                for dof in model.v_dofs:
                    i = model.dof_to_siteidx[dof]
                    O = site_op(np.diag(np.arange(dims[i])).astype(float), i, dims)
                    ref.append(np.trace(v.conj().T @ O @ v) if is_dm else np.vdot(v, O @ v))
                if np.abs(po - np.array(ref)).max() > 1e-9:
                    add(viol, "C07:ph_occupations", f"{desc} call {rep + 1}: {po} vs {np.array(ref)}")
    except Exception as e:
        add(viol, f"C07:occupations:exception:{type(e).__name__}", f"{desc}: {e!r}")
    return {"nontrivial": max(psi.bond_dims) > 1, "outcome": f"rdm:{'viol' if viol else 'ok'}", "viol": list(viol.values()), "sample": {"desc": desc}}


def run_case(desc, seed):
    if desc["k"] == "lists":
        return run_lists(desc, seed)
    return run_rdm(desc, seed)
