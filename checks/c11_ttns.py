"""C11 -- tree tensor network states behave as dense vectors for every topology.   (E2 + E1)

For every plane tree with <= N nodes x every distribution of the basis sets over the nodes (several sets per node, purely
virtual nodes as root / internal / leaf) x every sector:
  * register machine: all sequences up to depth d over {add (equal and different prefactors, both operand orders), scale (real,
    complex), operator application (full operator, charged operator), canonicalise, lossless compress, copy, to_complex};
    after every transition todense(order) x coeff == dense shadow;
  * observable battery in the reached states: ttns_norm / norm, expectation (TTNO, Op, OpSum), one-site RDMs of every node,
    two-site RDMs of EVERY ordered node pair, one-dof RDMs, two-dof RDMs of EVERY dof pair (same node and different nodes),
    1site / 1dof / 2site / 2dof entropies, mutual information, bond singular values and entropies -- against dense partial traces;
  * children-order independence: the same state on the tree with permuted children lists gives identical results;
  * partial operators (operator defined on a sub-set of the state's degrees of freedom, via add_auxiliary_space);
  * conversion of a chain state to a tree state (from_mps) preserves state and operator.
"""
import functools
import itertools

import numpy as np

from mc import env  # noqa: F401
from mc import trees as TR
from mc.chains import basis_list, neutral_terms, raising_terms, sectors, Chain
from mc.space import plane_trees
from mc.ref.dense import close, rel_err, kron_all, sector_projector, vn_entropy_dm

ID = "C11"
LEVEL = "model_checking"
RULE = ("a case = (plane tree, distribution of basis sets, family, sector, shard of first actions); states = (sequence prefix) snapshots, transitions = real TTNS/TTNO "
        "method calls each compared with the dense shadow; non-trivial = tree with >= 2 nodes and some bond dimension > 1 reached; distinct = distinct descriptor")
ASSUMPTIONS = [
    "todense is always called with an explicit order of the physical basis sets (the default order fails on trees with virtual nodes; noted, not claimed)",
    "tensor entries are seeded (TTNS.random); trees, distributions, sectors and operation sequences are enumerated completely within the bound",
    "reduced density matrices follow the documented index order: ket indices followed by bra indices, rho = Tr_rest |Psi><Psi|",
]
HORIZON_S = 900
HEAVY_CASES = True
TOL = 1e-9


def COST(desc):
    return len(desc["parent"]) ** 2 * (3 if desc.get("mode") == "battery" else 1)


def BOUND(tier):
    if tier == "quick":
        return {"trees": "plane trees <= 4 nodes (elec family: every distribution of 3 sets on <= 3 nodes, one set per node + dummy placements on 4 nodes); eph family on <= 3 nodes",
                "depth": 2, "sectors": "all"}
    return {"trees": "plane trees <= 5 nodes (elec, 3 sets), <= 4 nodes (eph, two-component; 4 sets on 1, 2, 4 nodes), every distribution of the basis sets",
            "depth": "2 (one-component families on trees <= 3 nodes: every sector; 4-node trees: two sectors (eph: one); 4-set family: trees <= 2 nodes, two sectors; two-component family: two sectors; 5-node trees: observable battery in one sector)",
            "sectors": "all for the observable battery (two-component family: 4 of 6)"}


FAMS = {"elec3": ("elec", 3), "eph3": ("eph", 3), "elec4": ("elec", 4), "two3": ("two", 3)}


def cases(tier, seed):
    quick = tier == "quick"
    for famname in (("elec3", "eph3") if quick else ("elec3", "eph3", "elec4", "two3")):
        fam, m = FAMS[famname]
        Nmax = 4 if (quick or m == 4) else 5
        for N in range(1, Nmax + 1):
            if quick and famname != "elec3" and N > 3:
                continue
            if not quick and ((famname in ("eph3", "two3") and N > 4) or (famname == "elec4" and N == 3)):
                continue      # thorough budget: five-node trees for the one-component electron family only; four basis sets on 1, 2 and 4 nodes
            for parent in plane_trees(N):
                dists = list(TR.distributions(m, N))
                if N >= 4:
                    # large trees: one basis set per node in every order and every placement of the empty (virtual) nodes
                    dists = [d for d in dists if max(len(g) for g in d) <= (1 if N >= m else 2)]
                for dist in dists:
                    nsec = len(sectors(fam, m))
                    for isec, sec in enumerate(sectors(fam, m)):
                        if quick:
                            one_per_node = max(len(g) for g in dist) <= 1
                            if N == 3 and not one_per_node and isec not in (1,):
                                continue
                            if N == 3 and one_per_node and isec not in (1, nsec - 1):
                                continue
                            if N == 4 and isec != 1:
                                continue
                            if N == 2 and isec == 0:
                                continue
                        base = {"fam": famname, "parent": parent, "groups": [list(g) for g in dist], "sector": sec}
                        if N == 5 and isec != 1:
                            continue          # five-node trees: one sector, observable battery only (thorough budget)
                        if not quick and famname == "two3" and sec not in ([1, 1], [1, 0], [2, 1], [0, 0]):
                            continue          # two-component labels: four of the six sectors (thorough budget)
                        heavy = not quick and (((N == 4 or famname == "elec4") and isec not in (1, 2)) or (famname == "elec4" and N > 2)
                                               or (famname == "two3" and sec not in ([1, 1], [2, 1])) or (famname == "eph3" and N == 4 and isec != 1))
                        if N < 5 and not heavy:   # thorough budget: depth-2 sequences on 4-node trees / 4 basis sets in two sectors, battery in all
                            yield dict(base, mode="seq")
                        yield dict(base, mode="battery", full_battery=not quick)
    for fam in ("elec", "eph", "two"):
        for n in (2, 3, 4):
            for sec in sectors(fam, n):
                yield {"mode": "from_mps", "fam": fam, "n": n, "sector": sec, "parent": [-1] * 1}


# ------------------------------------------------------------------------------------------------ context

class Ctx:
    pass


_STATIC = {}


def static_part(desc, seed):
    """tree, operators and their dense matrices: built once per case (no action mutates them)"""
    from renormalizer.tn import TTNO
    key = (desc["fam"], tuple(desc["parent"]), tuple(map(tuple, desc["groups"])), seed)
    if key in _STATIC:
        return _STATIC[key]
    fam, m = FAMS[desc["fam"]]
    c = Ctx()
    c.basis = basis_list(fam, m)
    c.dims = [b.nbas for b in c.basis]
    c.parent = desc["parent"]
    c.groups = [tuple(g) for g in desc["groups"]]
    c.tree = TR.build_basis_tree(c.parent, c.groups, c.basis)
    rs = env.rng(seed, ("c11", fam, m))
    c.h_terms = neutral_terms(fam, m, rs)
    c.r_terms = raising_terms(fam, m, rs)
    c.H = TTNO(c.tree, c.h_terms)
    c.P = TTNO(c.tree, c.r_terms) if c.r_terms else None
    c.order = list(c.basis)
    c.Hd = np.asarray(c.H.todense(c.order))
    c.Pd = np.asarray(c.P.todense(c.order)) if c.P is not None else None
    _STATIC.clear()
    _STATIC[key] = c
    return c


def make_ctx(desc, seed, permuted=False):
    from renormalizer.tn import TTNS, TTNO
    fam, m = FAMS[desc["fam"]]
    st = static_part(desc, seed)
    c = Ctx()
    c.__dict__.update(st.__dict__)
    sec = desc["sector"]
    mmax = 3
    env.reseed(seed, ("c11a", desc["fam"], tuple(c.parent), tuple(map(tuple, c.groups)), tuple(sec)))
    c.a = TTNS.random(c.tree, np.array(sec), mmax)
    env.reseed(seed, ("c11b", desc["fam"], tuple(c.parent), tuple(map(tuple, c.groups)), tuple(sec)))
    c.b = TTNS.random(c.tree, np.array(sec), 2)
    c.b.coeff = 0.5
    c.sh = {"a": TR.dense_state(c.a, c.order), "b": TR.dense_state(c.b, c.order)}
    c.sector = sec
    return c


def lossless(t):
    from renormalizer.utils import CompressConfig, CompressCriteria
    t.compress_config = CompressConfig(CompressCriteria.fixed, max_bonddim=10 ** 6)


def actions(c):
    A = {}
    def add_ab():
        c.a = c.a.add(c.b); c.sh["a"] = c.sh["a"] + c.sh["b"]
    def add_ba():
        c.a = c.b.add(c.a); c.sh["a"] = c.sh["a"] + c.sh["b"]
    def add_aa():
        c.a = c.a + c.a; c.sh["a"] = 2 * c.sh["a"]
    def sc2():
        c.a = c.a.scale(2.0); c.sh["a"] = 2 * c.sh["a"]
    def scj():
        c.a = c.a.scale(0.6 + 0.8j); c.sh["a"] = (0.6 + 0.8j) * c.sh["a"]
    def sc0d():
        z = np.array(0.6 - 0.8j)                      # a complex factor held in a 0-d array
        c.a = c.a.scale(z); c.sh["a"] = complex(z) * c.sh["a"]
    def sc64():
        z = np.complex64(0.6 + 0.8j)                  # ... in single precision
        c.a = c.a.scale(z); c.sh["a"] = complex(z) * c.sh["a"]
    def scin():
        r = c.b.scale(-1.5, inplace=True); c.sh["b"] = -1.5 * c.sh["b"]
        assert r is c.b
    def coeff():
        c.a.coeff = c.a.coeff * 0.25; c.sh["a"] = 0.25 * c.sh["a"]
    def applyH():
        c.a = c.H.apply(c.a); c.sh["a"] = c.Hd @ c.sh["a"]
    def applyHc():
        c.a = c.H.apply(c.a, canonicalise=True); c.sh["a"] = c.Hd @ c.sh["a"]
    def matmulH():
        c.b = c.H @ c.b; c.sh["b"] = c.Hd @ c.sh["b"]
    def applyP():
        if c.P is None:
            raise Skip()
        c.a = c.P.apply(c.a); c.sh["a"] = c.Pd @ c.sh["a"]
    def cano():
        r = c.a.canonicalise()
        assert r is c.a
    def canob():
        c.b.canonicalise()
    def comp():
        if len(c.parent) == 1:
            raise Skip()
        c.a.canonicalise(); lossless(c.a); c.a.compress()
    def comp_list():
        # per-node limits equal to the current bond dimensions (list form of temp_m_trunc, same layout as bond_dims): lossless
        if len(c.parent) == 1:
            raise Skip()
        c.a.canonicalise(); lossless(c.a); c.a.compress(temp_m_trunc=list(c.a.bond_dims))
    def cp():
        c.a = c.a.copy()
    def cx():
        c.a = c.a.to_complex()
    def norm_():
        c.a.normalize("ttns_norm_to_coeff")
    for k, f in (("a=a.add(b)", add_ab), ("a=b.add(a)", add_ba), ("a=a+a", add_aa), ("a=a.scale(2)", sc2), ("a=a.scale(.6+.8j)", scj), ("a=a.scale(0-d array .6-.8j)", sc0d), ("a=a.scale(np.complex64)", sc64),
                 ("b.scale(-1.5,inplace)", scin), ("a.coeff*=.25", coeff), ("a=H.apply(a)", applyH), ("a=H.apply(a,canonicalise)", applyHc),
                 ("b=H@b", matmulH), ("a=P.apply(a)", applyP), ("a.canonicalise()", cano), ("b.canonicalise()", canob),
                 ("a.compress(lossless)", comp), ("a.compress(per-node list = current dims)", comp_list), ("a=a.copy()", cp), ("a=a.to_complex()", cx), ("a.normalize(norm_to_coeff)", norm_)):
        A[k] = f
    return A


class Skip(Exception):
    pass


def check_regs(c, viol, trace, tag):
    for r in ("a", "b"):
        obj = getattr(c, r)
        try:
            d = TR.dense_state(obj, c.order)
        except Exception as e:
            add(viol, f"C11:exception-in-observer:{type(e).__name__}", f"{tag} trace={trace}: todense raised {e!r}")
            return False
        if not close(d, c.sh[r], TOL):
            last = trace[-1] if trace else "initial"
            add(viol, f"C11:dense:{last}", f"{tag} trace={trace}: register {r} differs from the dense shadow by rel {rel_err(d, c.sh[r]):.2e}")
            return False
    return True


def add(viol, sig, msg):
    if sig not in viol:
        viol[sig] = {"sig": sig, "msg": msg}


# ------------------------------------------------------------------------------------------------ observable battery

def dense_rdm(psi, dims, keep):
    """rho[ket..., bra...] for the physical indices `keep` (in the given order)"""
    n = len(dims)
    t = psi.reshape(dims)
    rest = [i for i in range(n) if i not in keep]
    tt = np.transpose(t, list(keep) + rest).reshape(int(np.prod([dims[i] for i in keep])) if keep else 1, -1)
    rho = tt @ tt.conj().T
    kd = [dims[i] for i in keep]
    return rho.reshape(kd + kd)


def battery(c, obj, psi_full, viol, tag):
    """psi_full = dense vector x coeff; observables of the TTNS ignore coeff (tensor part), like the chain ones"""
    from renormalizer.model import Op, OpSum
    psi = psi_full / obj.coeff
    dims = c.dims
    nrm = np.linalg.norm(psi)
    n_checked = 0

    def cmp(name, got, ref, tol=1e-8):
        nonlocal n_checked
        n_checked += 1
        got = np.asarray(got)
        ref = np.asarray(ref)
        if got.shape != ref.shape and got.size == ref.size:
            got = got.reshape(ref.shape)
        if got.shape != ref.shape or np.abs(got - ref).max() > tol * max(1.0, nrm ** 2, np.abs(ref).max()):
            err = np.abs(got - ref).max() if got.shape == ref.shape else float("inf")
            add(viol, f"C11:observable:{name}", f"{tag}: {name} differs from the dense value by {err:.2e} (shapes {got.shape}/{ref.shape})")

    try:
        cmp("ttns_norm", obj.ttns_norm, nrm)
        cmp("norm", obj.norm, abs(obj.coeff) * nrm)
        cmp("expectation(TTNO)", obj.expectation(c.H), np.vdot(psi, c.Hd @ psi))
        t0 = c.h_terms[0]
        cmp("expectation(Op)", obj.expectation(t0), np.vdot(psi, dense_terms(c, [t0]) @ psi))
        cmp("expectation(OpSum)", obj.expectation(OpSum(c.h_terms[:3])), np.vdot(psi, dense_terms(c, c.h_terms[:3]) @ psi))
    except Exception as e:
        add(viol, f"C11:exception:{type(e).__name__}:norm-or-expectation", f"{tag}: {e!r}")
    node_phys = {i: list(g) for i, g in enumerate(c.groups)}
    N = len(c.parent)
    try:
        r1 = obj.calc_1site_rdm()
        for i in range(N):
            cmp("calc_1site_rdm", r1[i], dense_rdm(psi, dims, node_phys[i]))
        r1b = obj.calc_1site_rdm([0])
        cmp("calc_1site_rdm(idx)", r1b[0], dense_rdm(psi, dims, node_phys[0]))
        ent = obj.calc_1site_entropy()
        for i in range(N):
            k = node_phys[i]
            dm = dense_rdm(psi, dims, k).reshape(int(np.prod([dims[j] for j in k])) if k else 1, -1)
            cmp("calc_1site_entropy", ent[i], vn_entropy_dm(dm / max(nrm ** 2, 1e-300)) if False else ent_ref(dm), 1e-7)
    except Exception as e:
        add(viol, f"C11:exception:{type(e).__name__}:1site-rdm", f"{tag}: {e!r}")
    try:
        pairs = [(i, j) for i in range(N) for j in range(N) if i != j]
        if pairs:
            r2 = obj.calc_2site_rdm(pairs)
            for (i, j) in pairs:
                cmp("calc_2site_rdm", r2[(i, j)], dense_rdm(psi, dims, node_phys[i] + node_phys[j]))
            e2 = obj.calc_2site_entropy(pairs[: max(1, len(pairs) // 2)])
            for (i, j), v in e2.items():
                k = node_phys[i] + node_phys[j]
                dm = dense_rdm(psi, dims, k).reshape(int(np.prod([dims[x] for x in k])) if k else 1, -1)
                cmp("calc_2site_entropy", v, ent_ref(dm), 1e-7)
    except Exception as e:
        add(viol, f"C11:exception:{type(e).__name__}:2site-rdm", f"{tag}: {e!r}")
    # degrees of freedom
    dof_of = [(ib, d) for ib, b in enumerate(c.basis) for d in b.dofs]
    try:
        rd = obj.calc_1dof_rdm()
        for ib, d in dof_of:
            if d in rd:
                cmp("calc_1dof_rdm", rd[d], dense_rdm(psi, dims, [ib]))
        ed = obj.calc_1dof_entropy([dof_of[0][1]])
        cmp("calc_1dof_entropy", ed[dof_of[0][1]], ent_ref(dense_rdm(psi, dims, [dof_of[0][0]])), 1e-7)
    except Exception as e:
        add(viol, f"C11:exception:{type(e).__name__}:1dof-rdm", f"{tag}: {e!r}")
    try:
        first = {}
        for ib, d in dof_of:
            first.setdefault(ib, d)     # one dof name per basis set
        dp = [(first[i], first[j]) for i in first for j in first if i != j]
        if dp:
            r2d = obj.calc_2dof_rdm(dp)
            for (d1, d2) in dp:
                i = [k for k in first if first[k] == d1][0]
                j = [k for k in first if first[k] == d2][0]
                cmp("calc_2dof_rdm", r2d[(d1, d2)], dense_rdm(psi, dims, [i, j]))
            e2d = obj.calc_2dof_entropy(dp[:3])
            for (d1, d2), v in e2d.items():
                i = [k for k in first if first[k] == d1][0]
                j = [k for k in first if first[k] == d2][0]
                dm = dense_rdm(psi, dims, [i, j]).reshape(dims[i] * dims[j], -1)
                cmp("calc_2dof_entropy", v, ent_ref(dm), 1e-7)
            mi, _ = obj.calc_2dof_mutual_info(dp[:2])
            for (d1, d2), v in mi.items():
                i = [k for k in first if first[k] == d1][0]
                j = [k for k in first if first[k] == d2][0]
                s1 = ent_ref(dense_rdm(psi, dims, [i]))
                s2 = ent_ref(dense_rdm(psi, dims, [j]))
                s12 = ent_ref(dense_rdm(psi, dims, [i, j]).reshape(dims[i] * dims[j], -1))
                cmp("calc_2dof_mutual_info", v, (s1 + s2 - s12) / 2, 1e-7)
    except Exception as e:
        add(viol, f"C11:exception:{type(e).__name__}:2dof-rdm", f"{tag}: {e!r}")
    # bond entropies: for every non-root node the bipartition subtree | rest
    try:
        if N > 1:
            sv = obj.calc_bond_singular_values()
            be = obj.calc_bond_entropy()
            subs = TR.tree_edges_bipartitions(c.parent, c.groups, len(dims))
            t = psi.reshape(dims)
            for node, inside in subs.items():
                outside = [i for i in range(len(dims)) if i not in inside]
                M_ = np.transpose(t, inside + outside).reshape(int(np.prod([dims[i] for i in inside])) if inside else 1, -1)
                s = np.linalg.svd(M_, compute_uv=False)
                got = np.sort(np.asarray(sv[node]))[::-1]
                k = max(len(got), len(s))
                cmp("calc_bond_singular_values", np.pad(got, (0, k - len(got))), np.pad(s, (0, k - len(s))))
                p = s ** 2
                p = p / p.sum()
                p = p[p > 1e-14]
                cmp("calc_bond_entropy", be[node], float(-(p * np.log(p)).sum()), 1e-7)
    except Exception as e:
        add(viol, f"C11:exception:{type(e).__name__}:bond-entropy", f"{tag}: {e!r}")
    # observe -> modify in place -> observe again: whatever the first round of observables left behind (cached environments ...) must
    # not survive an in-place rescaling of the very same object
    saved = [(np.array(n.tensor, copy=True), np.array(n.qn, copy=True)) for n in obj.node_list]
    saved_coeff = obj.coeff
    try:
        for how, fn in (("scale(-2.5,inplace)", lambda: obj.scale(-2.5, inplace=True)), ("normalize(ttns_only)", lambda: obj.normalize("ttns_only")),
                        ("scale(0.5,inplace)", lambda: obj.scale(0.5, inplace=True))):
            fn()
            psi2 = TR.dense_state(obj, c.order) / obj.coeff
            nrm = np.linalg.norm(psi2)
            r1 = obj.calc_1site_rdm()
            for i in range(N):
                cmp(f"calc_1site_rdm:after-{how}", r1[i], dense_rdm(psi2, dims, node_phys[i]))
            rd = obj.calc_1dof_rdm()
            for ib, d in dof_of:
                if d in rd:
                    cmp(f"calc_1dof_rdm:after-{how}", rd[d], dense_rdm(psi2, dims, [ib]))
            cmp(f"expectation(TTNO):after-{how}", obj.expectation(c.H), np.vdot(psi2, c.Hd @ psi2))
            cmp(f"ttns_norm:after-{how}", obj.ttns_norm, nrm)
    except Exception as e:
        add(viol, f"C11:exception:{type(e).__name__}:observe-after-inplace-rescale", f"{tag}: {e!r}")
    for n, (t_, q_) in zip(obj.node_list, saved):        # the caller goes on comparing this object with its dense shadow
        n.tensor = t_
        n.qn = q_
    obj.coeff = saved_coeff
    return n_checked


def ent_ref(dm):
    dm = np.asarray(dm)
    if dm.ndim > 2:
        k = int(np.sqrt(dm.size))
        dm = dm.reshape(k, k)
    w = np.linalg.eigvalsh((dm + dm.conj().T) / 2)
    w = w / w.sum()              # entropy of the normalised reduced state (the library normalises the eigenvalues)
    w = w[w > 1e-14]
    return float(-(w * np.log(w)).sum())


def dense_terms(c, terms):
    D = int(np.prod(c.dims))
    out = np.zeros((D, D), dtype=complex)
    dof2site = {d: i for i, b in enumerate(c.basis) for d in b.dofs}
    from renormalizer.model import Op
    for t in terms:
        per = {}
        for sym, dof in zip(t.split_symbol, t.dofs):
            per.setdefault(dof2site[dof], []).append((sym, dof))
        mats = [np.eye(d, dtype=complex) for d in c.dims]
        for s, lst in per.items():
            op = Op(" ".join(x[0] for x in lst), [x[1] for x in lst])
            mats[s] = np.asarray(c.basis[s].op_mat(op), dtype=complex)
        out = out + t.factor * kron_all(mats)
    return out


def permuted_copy(c, obj, seed):
    """the same state on the plane tree with permuted children lists (node tensors transposed accordingly)"""
    from renormalizer.tn import TTNS, TreeNodeTensor, copy_connection
    new_parent, mapping = TR.permute_children(c.parent, 1234)
    if new_parent == list(c.parent):
        return None
    inv = {v: k for k, v in mapping.items()}
    new_groups = [c.groups[inv[i]] for i in range(len(c.parent))]
    tree2 = TR.build_basis_tree(new_parent, new_groups, c.basis)
    old_children = {i: [j for j in range(len(c.parent)) if c.parent[j] == i] for i in range(len(c.parent))}
    new_children = {i: [j for j in range(len(new_parent)) if new_parent[j] == i] for i in range(len(new_parent))}
    nodes = []
    for i in range(len(new_parent)):
        old = inv[i]
        tens = np.asarray(obj.node_list[old].tensor)
        # child axes of the old node in the order of the new node's children
        perm = [old_children[old].index(inv[ch]) for ch in new_children[i]]
        axes = perm + list(range(len(perm), tens.ndim))
        nodes.append(TreeNodeTensor(np.transpose(tens, axes).copy(), np.asarray(obj.node_list[old].qn).copy()))
    for i, p in enumerate(new_parent):
        if p >= 0:
            nodes[p].add_child(nodes[i])
    t2 = TTNS(tree2, root=nodes[0])
    t2.coeff = obj.coeff
    c2 = Ctx()
    c2.__dict__.update(c.__dict__)
    c2.parent, c2.groups, c2.tree = new_parent, new_groups, tree2
    from renormalizer.tn import TTNO
    c2.H = TTNO(tree2, c.h_terms)
    return c2, t2


def run_case(desc, seed):
    viol = {}
    if desc["mode"] == "from_mps":
        return run_from_mps(desc, seed, viol)
    tag = f"[{desc['fam']} tree={desc['parent']} groups={desc['groups']} sector={desc['sector']}]"
    transitions = 0
    states = 0
    maxbond = 1
    try:
        c0 = make_ctx(desc, seed)
    except FloatingPointError:
        return {"skipped": 1, "outcome": "random-state-construction-failed"}
    names = list(actions(c0))
    depth = desc.get("depth", 2)
    if desc["mode"] == "seq":
        if not check_regs(c0, viol, [], tag):
            return {"nontrivial": True, "viol": list(viol.values()), "outcome": "viol"}
        def clone_ctx(c):
            c2 = Ctx()
            c2.__dict__.update(c.__dict__)
            c2.a, c2.b = TR.clone_ttns(c.a), TR.clone_ttns(c.b)
            c2.sh = {k: v.copy() for k, v in c.sh.items()}
            return c2

        def do(c, nm, trace):
            """apply one action on ctx c; returns True if the state is valid and may be extended"""
            nonlocal transitions, maxbond, states
            acts = actions(c)
            try:
                acts[nm]()
            except Skip:
                return False
            except AssertionError as e:
                import sys
                import traceback
                tb = traceback.extract_tb(sys.exc_info()[2])
                lib = [f.name for f in tb if "/renormalizer/" in f.filename]
                if lib and lib[-1] in ("compress_recursion", "add"):
                    # explicit refusals: a single node cannot be compressed; operands of add must be in the same sector
                    return False
                add(viol, f"C11:exception:AssertionError:{lib[-1] if lib else 'harness'}", f"{tag} trace={trace + [nm]}: {e!r}")
                return False
            except Exception as e:
                import sys
                import traceback
                tb = traceback.extract_tb(sys.exc_info()[2])
                lib = [f.name for f in tb if "/renormalizer/" in f.filename]
                add(viol, f"C11:exception:{type(e).__name__}:{lib[-1] if lib else 'harness'}", f"{tag} trace={trace + [nm]}: {e!r}")
                return False
            transitions += 1
            states += 1
            if np.linalg.norm(c.sh["a"]) < 1e-13 or np.linalg.norm(c.sh["b"]) < 1e-13:
                return False
            if not check_regs(c, viol, trace + [nm], tag):
                return False
            maxbond = max(maxbond, max(c.a.bond_dims))
            return True

        def dfs(c, trace, d):
            if d >= depth:
                return
            for nm in names:
                c2 = clone_ctx(c)
                if do(c2, nm, trace):
                    dfs(c2, trace + [nm], d + 1)

        dfs(c0, [], 0)
    else:
        # battery in the initial state, after single actions, and on the children-permuted tree
        full = desc.get("full_battery", False)
        seqs = [()] + [(nm,) for nm in ("a=a.add(b)", "a=a.scale(.6+.8j)", "a=H.apply(a)", "a.canonicalise()", "a.compress(lossless)", "a=P.apply(a)")] + \
            [("a=a.add(b)", "a=a.scale(.6+.8j)", "a.canonicalise()", "a.compress(lossless)")]
        if not full:
            # quick tier: the initial state, a complex non-canonical sum, and the canonicalised + compressed complex state
            seqs = [(), ("a=a.add(b)", "a=a.scale(.6+.8j)"), ("a=a.add(b)", "a=a.scale(.6+.8j)", "a.canonicalise()", "a.compress(lossless)")]
        for seq in seqs:
            c = make_ctx(desc, seed)
            acts = actions(c)
            try:
                for nm in seq:
                    acts[nm]()
                    transitions += 1
            except (Skip, AssertionError):
                continue
            except Exception:
                continue      # reported by the seq mode
            if np.linalg.norm(c.sh["a"]) < 1e-13:
                continue
            if not check_regs(c, viol, list(seq), tag):
                continue
            maxbond = max(maxbond, max(c.a.bond_dims))
            n1 = battery(c, c.a, c.sh["a"], viol, f"{tag} after {list(seq)}")
            states += 1
            pc = permuted_copy(c, c.a, seed)
            if pc is not None:
                c2, t2 = pc
                try:
                    d2 = TR.dense_state(t2, c.order)
                except Exception as e:
                    add(viol, f"C11:children-order:exception:{type(e).__name__}", f"{tag}: {e!r}")
                    continue
                if not close(d2, c.sh["a"], TOL):
                    add(viol, "C11:children-order:dense", f"{tag} after {list(seq)}: the state on the tree with permuted children differs by rel {rel_err(d2, c.sh['a']):.2e}")
                else:
                    v2 = {}
                    battery(c2, t2, c.sh["a"], v2, f"{tag} after {list(seq)} on permuted children {c2.parent}")
                    for k, v in v2.items():
                        add(viol, k.replace("C11:", "C11:children-order:"), v["msg"])
                    transitions += 1
        # partial operator via auxiliary space
        try:
            run_partial(desc, seed, viol, tag)
            transitions += 1
        except Exception as e:
            import sys
            import traceback
            tb = traceback.extract_tb(sys.exc_info()[2])
            lib = [f.name for f in tb if "/renormalizer/" in f.filename]
            add(viol, f"C11:partial-operator:exception:{type(e).__name__}:{lib[-1] if lib else 'harness'}", f"{tag}: {e!r}")
    return {"nontrivial": len(desc["parent"]) >= 2 and maxbond > 1, "states": states, "transitions": transitions,
            "viol": list(viol.values()), "outcome": f"{desc['mode']}:{'viol' if viol else 'ok'}",
            "sample": {"desc": desc, "transitions": transitions}}


def run_partial(desc, seed, viol, tag):
    """state on P+Q degrees of freedom (auxiliary space), operator defined on P only"""
    from renormalizer.tn import TTNS, TTNO
    c = make_ctx(desc, seed)
    tree2 = c.tree.add_auxiliary_space()
    env.reseed(seed, ("c11q", desc["fam"], tuple(c.parent), tuple(map(tuple, c.groups))))
    try:
        s = TTNS.random(tree2, np.array(desc["sector"]), 3)
    except FloatingPointError:
        return     # TTNS.random found no compatible block at this bond limit (noted in DESIGN.md, not claimed)
    order2 = [b for b in tree2.basis_list if type(b).__name__ != "BasisDummy"]
    psi = TR.dense_state(s, order2)
    dims2 = [b.nbas for b in order2]
    # dense operator on P+Q: H on P (x) identity on Q, in the order of order2
    pidx = [i for i, b in enumerate(order2) if not (isinstance(b.dof, tuple) and len(b.dof) == 2 and b.dof[0] == "Q")]
    qidx = [i for i in range(len(order2)) if i not in pidx]
    porder = [order2[i] for i in pidx]
    # permutation from c.order to porder
    idx_in_c = [c.order.index(b) for b in porder]
    Hd = c.Hd.reshape(c.dims + c.dims)
    perm = idx_in_c + [len(c.dims) + i for i in idx_in_c]
    Hp = np.transpose(Hd, perm)
    dp = int(np.prod([dims2[i] for i in pidx]))
    Hp = Hp.reshape(dp, dp)
    t = psi.reshape(dims2)
    tt = np.transpose(t, pidx + qidx).reshape(dp, -1)
    ref_vec = (Hp @ tt)
    ref_e = np.vdot(tt, ref_vec)
    Hpart = TTNO(c.tree, c.h_terms)
    e = s.expectation(Hpart)
    if abs(e - ref_e) > 1e-8 * max(1.0, abs(ref_e)):
        add(viol, "C11:partial-operator:expectation", f"{tag}: expectation of an operator defined on the physical sub-space {e} vs dense {ref_e}")
    out = Hpart.apply(s)
    dv = TR.dense_state(out, order2).reshape(dims2)
    dv = np.transpose(dv, pidx + qidx).reshape(dp, -1)
    if not close(dv, ref_vec, TOL):
        add(viol, "C11:partial-operator:apply", f"{tag}: applying an operator defined on the physical sub-space differs by rel {rel_err(dv, ref_vec):.2e}")


def run_from_mps(desc, seed, viol):
    from renormalizer.tn.tree import from_mps
    ch = Chain(desc["fam"], desc["n"], seed)
    mps = ch.random_mps(desc["sector"], 4, "frommps", cplx=(desc["n"] % 2 == 1))
    mps.coeff = 1
    v = np.asarray(mps.todense())
    snap = v.copy()
    basis, ttns, ttno = from_mps(mps)
    order = list(mps.model.basis)
    d = TR.dense_state(ttns, order)
    if not close(d, v, TOL):
        add(viol, "C11:from_mps:state", f"{desc}: tree state differs from the chain state by rel {rel_err(d, v):.2e}")
    if not close(np.asarray(mps.todense()), snap, 1e-12):
        add(viol, "C11:from_mps:input-changed", f"{desc}")
    Hd = ch.mpo_neutral().todense()
    Od = np.asarray(ttno.todense(order))
    if not close(Od, Hd, TOL):
        add(viol, "C11:from_mps:operator", f"{desc}: TTNO of the linear tree differs from the chain MPO by rel {rel_err(Od, Hd):.2e}")
    e1 = ttns.expectation(ttno)
    e2 = np.vdot(v, Hd @ v)
    if abs(e1 - e2) > 1e-8 * max(1, abs(e2)):
        add(viol, "C11:from_mps:expectation", f"{desc}: {e1} vs {e2}")
    return {"nontrivial": desc["n"] >= 2, "states": 1, "transitions": 3, "viol": list(viol.values()), "outcome": "from_mps",
            "sample": {"desc": desc}}
