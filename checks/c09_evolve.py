"""C09 -- real-time evolution converges to the exact propagator for every scheme.   (E1 + E4)

Schemes: P&C Taylor, P&C RK4, general-RK P&C with each of the ten tableaux (embedded pairs adaptively), TDVP-PS, TDVP-PS2,
VMF, MU-VMF with / without overlap forcing, CMF first order / midpoint / trapezoid;  local solver krylov / RK45 where the scheme
has one;  adaptive on / off where supported;  initial states {random real, random complex, right-canonical, centre in the
middle, product (bonds grown first), density-operator form};  step ladder over more than a decade;  time-dependent Hamiltonian
callables;  call histories that switch scheme / step / solver between calls (all histories of three calls over a menu of
configurations = all histories with <= 2 deviations);  every split of t into 1, 2, 4 calls.  The SAME initial object is reused
for the whole ladder (as a convergence study does) and compared with a run from a fresh object.
Oracle: expm(-iHt) psi (time dependent: dense DOP853).  (i) error envelope and order, (ii) krylov vs RK45, (iii) adaptive vs
requested tolerance, (iv) split invariance, (v) TDVP-PS at truncated bond dimension conserves norm and energy,
(vi) no bond dimension above the configured limit, (vii) horizon on right-hand-side evaluations (adaptive / stiff loops).
"""
import functools
import itertools

import numpy as np
import scipy.linalg
import scipy.integrate

from mc import env  # noqa: F401
from mc.chains import Chain, sectors, charged_sites
from mc.machine import dense_of
from mc.ref.dense import close, rel_err

ID = "C09"
LEVEL = "exploration"
RULE = ("one case = (model, initial-state kind, scheme configuration) running the step ladder, the splits and the reuse/fresh comparison; history cases: one case = "
        "(model, first configuration) running every history of three calls that starts with it; non-trivial = the exact propagated state differs from the initial "
        "one by > 1e-3 and the initial state has a bond > 1 (or is the product state); distinct = distinct descriptor")
ASSUMPTIONS = [
    "envelopes (x = ||H|| dt, n calls): Taylor/RK order p: 3 n x^(p+1)/(p+1)! + 1e-7; PS/PS2/CMF midpoint,trapz: 0.3 n x^3 + 1e-6; CMF first order 1.0 n x^2 + 1e-6; VMF / MU-VMF (regularised equations of motion): 1e-2 max(1,x) n + 1e-4 "
    "(set about one order above the largest error seen on the unchanged tree for seeds 0..4)",
    "order check: halving dt reduces the one-call error by >= 2^(p+1-0.6) while the errors are above 1e-6/1e-8",
    "fixed-manifold schemes (PS, VMF, CMF) start from states whose bonds already have the dimension needed (product states are expanded with expand_bond_dimension first)",
    "time-dependent reference: scipy DOP853 at rtol 1e-12",
]
HORIZON_S = 900
HEAVY_CASES = True
LADDER = [0.4, 0.2, 0.1, 0.05, 0.025]
RK_METHODS = ["Forward_Euler", "midpoint_RK2", "Heun_RK2", "Ralston_RK2", "Kutta_RK3", "C_RK4", "38rule_RK4", "Fehlberg5", "RKF45", "Cash-Karp45"]
RK_ORDER = {"Forward_Euler": 1, "midpoint_RK2": 2, "Heun_RK2": 2, "Ralston_RK2": 2, "Kutta_RK3": 3, "C_RK4": 4, "38rule_RK4": 4, "Fehlberg5": 5, "RKF45": 5, "Cash-Karp45": 5}


def COST(desc):
    s = desc.get("scheme", "")
    return (8 if ("vmf" in s or "cmf" in s) else 2) + (4 if desc.get("k") == "history" else 0)


def BOUND(tier):
    return {"models": ["elec n=3 sector 1", "eph n=4 sector 1", "spin n=3"], "ladder": LADDER, "splits": [1, 2, 4],
            "histories": "all sequences of 3 calls over a menu of 7 configurations", "rk_tableaux": RK_METHODS}


def schemes():
    """name -> (EvolveConfig kwargs incl. method name, order or None, family)"""
    S = {}
    S["pc-taylor"] = (dict(method="prop_and_compress"), 4, "taylor")
    S["pc-taylor-adaptive"] = (dict(method="prop_and_compress", adaptive=True, guess_dt=0.05, adaptive_rtol=1e-6), None, "adaptive")
    S["pc-rk4"] = (dict(method="prop_and_compress_tdrk4"), 4, "taylor")
    for m in RK_METHODS:
        if m in ("RKF45", "Cash-Karp45"):
            S[f"pc-rk:{m}:adaptive"] = (dict(method="prop_and_compress_tdrk", rk_solver=m, adaptive=True, guess_dt=0.05, adaptive_rtol=1e-6), None, "adaptive")
        else:
            S[f"pc-rk:{m}"] = (dict(method="prop_and_compress_tdrk", rk_solver=m), RK_ORDER[m], "taylor")
    # adaptive runs whose first trial step is far too large, so that steps get rejected
    S["pc-rk:RKF45:adaptive:large-guess"] = (dict(method="prop_and_compress_tdrk", rk_solver="RKF45", adaptive=True, guess_dt=2.0, adaptive_rtol=1e-6), None, "adaptive")
    S["pc-rk:Cash-Karp45:adaptive:large-guess"] = (dict(method="prop_and_compress_tdrk", rk_solver="Cash-Karp45", adaptive=True, guess_dt=2.0, adaptive_rtol=1e-6), None, "adaptive")
    S["pc-taylor-adaptive:large-guess"] = (dict(method="prop_and_compress", adaptive=True, guess_dt=2.0, adaptive_rtol=1e-6), None, "adaptive")
    S["ps:krylov:adaptive:large-guess"] = (dict(method="tdvp_ps", adaptive=True, guess_dt=2.0, adaptive_rtol=1e-5), None, "adaptive")
    for solver in ("krylov", "RK45"):
        S[f"ps:{solver}"] = (dict(method="tdvp_ps", ivp_solver=solver, ivp_rtol=1e-8, ivp_atol=1e-10), 2, "split")
        S[f"ps2:{solver}"] = (dict(method="tdvp_ps2", ivp_solver=solver, ivp_rtol=1e-8, ivp_atol=1e-10), 2, "split")
        S[f"cmf-midpoint:{solver}"] = (dict(method="tdvp_mu_cmf", ivp_solver=solver, ivp_rtol=1e-8, ivp_atol=1e-10), 2, "split")
    S["cmf-first-order:RK45"] = (dict(method="tdvp_mu_cmf", ivp_solver="RK45", _midpoint=False, ivp_rtol=1e-8, ivp_atol=1e-10), 1, "first")
    S["cmf-trapz:RK45"] = (dict(method="tdvp_mu_cmf", ivp_solver="RK45", _trapz=True, ivp_rtol=1e-8, ivp_atol=1e-10), 2, "split")
    S["ps:krylov:adaptive"] = (dict(method="tdvp_ps", adaptive=True, guess_dt=0.05, adaptive_rtol=1e-5), None, "adaptive")
    S["cmf-midpoint:RK45:adaptive"] = (dict(method="tdvp_mu_cmf", ivp_solver="RK45", adaptive=True, guess_dt=0.05, adaptive_rtol=1e-5), None, "adaptive")
    S["vmf"] = (dict(method="tdvp_vmf", ivp_rtol=1e-7, ivp_atol=1e-10, force_ovlp=False), None, "vmf")
    S["vmf:force_ovlp"] = (dict(method="tdvp_vmf", ivp_rtol=1e-7, ivp_atol=1e-10, force_ovlp=True), None, "vmf")
    S["mu-vmf"] = (dict(method="tdvp_mu_vmf", ivp_rtol=1e-7, ivp_atol=1e-10, force_ovlp=False), None, "vmf")
    S["mu-vmf:force_ovlp"] = (dict(method="tdvp_mu_vmf", ivp_rtol=1e-7, ivp_atol=1e-10, force_ovlp=True), None, "vmf")
    return S


INITS = ["random-real", "random-complex", "right-canonical", "centre-mid", "product", "mpdm", "small-norm", "large-norm",
         "sum-after-canonicalise", "apply-after-canonicalise", "complex-regauged"]
# the last two: histories that leave the FLAGS of a right-canonical state (to_right=True, centre at site 0) on tensors that are not
# right-canonical any more (gauge sweep, then a sum / an operator application without re-gauging)
FLAGGED_NOT_CANONICAL = ("sum-after-canonicalise", "apply-after-canonicalise")
MODELS = [("elec", 3, [1]), ("eph", 4, [1]), ("spin", 3, [0])]
# an eigenstate with eigenvalue zero (H|psi> = 0 exactly): the vacuum of the electronic chain
ZERO_MODELS = [("elec", 3, [0])]
MENU = ["ps:krylov", "ps2:krylov", "pc-taylor", "cmf-midpoint:RK45", "vmf", "ps:RK45", "pc-rk:RKF45:adaptive"]


def cases(tier, seed):
    quick = tier == "quick"
    S = schemes()
    for fam, n, sec in MODELS:
        for init in INITS:
            for sname in S:
                if quick:
                    # quick tier: every scheme on the random complex state of every model; the other initial states on one model
                    if init != "random-complex" and fam != "eph" and not (init == "complex-regauged" and fam == "spin"):
                        continue     # (the unlabelled chain is where the gauge matrices of the regauged state are full)
                    if init in ("centre-mid", "right-canonical") and sname.startswith("pc-rk:") and sname not in ("pc-rk:C_RK4", "pc-rk:RKF45:adaptive"):
                        continue
                if init == "mpdm" and sname.split(":")[0] in ("cmf-midpoint", "cmf-first-order", "cmf-trapz", "vmf", "mu-vmf"):
                    continue     # complete-bond density operators have tiny singular values: same ill-conditioning, value dependent
                if init in FLAGGED_NOT_CANONICAL and sname.split(":")[0] in ("cmf-midpoint", "cmf-first-order", "cmf-trapz", "vmf", "mu-vmf"):
                    continue     # over-complete bonds after the sum: the mean-field schemes abort there (known finding), PS / PS2 / P&C take these
                if init == "product" and sname.split(":")[0] in ("cmf-midpoint", "cmf-first-order", "cmf-trapz", "vmf", "mu-vmf"):
                    # bonds grown from a product state carry singular values ~1e-8: the regularised mean-field equations are
                    # ill-conditioned there (value dependent, DESIGN.md section 8) -- the product state is propagated by P&C, PS2 and PS
                    continue
                yield {"k": "ladder", "fam": fam, "n": n, "sector": sec, "init": init, "scheme": sname}
        for first in MENU:
            yield {"k": "history", "fam": fam, "n": n, "sector": sec, "first": first}
        if (fam, n) == MODELS[0][:2]:
            yield from zero_cases()
        for sname in ("pc-rk4", "pc-rk:C_RK4", "pc-rk:RKF45:adaptive", "ps2:krylov", "vmf", "cmf-midpoint:RK45"):
            yield {"k": "time-dependent", "fam": fam, "n": n, "sector": sec, "scheme": sname}
        for sname in S:
            yield {"k": "truncated", "fam": fam, "n": n, "sector": sec, "scheme": sname}
        if (fam, n) == MODELS[1][:2]:
            for sname in S:
                yield {"k": "step-type", "fam": fam, "n": n, "sector": sec, "scheme": sname}
        for base in ("ps", "ps2", "cmf-midpoint"):
            for init in ("random-complex", "right-canonical", "mpdm"):
                if base == "cmf-midpoint" and init == "mpdm":
                    continue
                yield {"k": "solver", "fam": fam, "n": n, "sector": sec, "scheme": base, "init": init}


def zero_cases():
    S = schemes()
    for fam, n, sec in ZERO_MODELS:
        for sname in S:
            yield {"k": "ladder", "fam": fam, "n": n, "sector": sec, "init": "zero-eigenstate", "scheme": sname}


def make_config(spec):
    from renormalizer.utils import EvolveConfig, EvolveMethod
    kw = dict(spec)
    method = getattr(EvolveMethod, kw.pop("method"))
    mid = kw.pop("_midpoint", True)
    trapz = kw.pop("_trapz", False)
    cfg = EvolveConfig(method, **kw)
    cfg.tdvp_cmf_midpoint = mid
    cfg.tdvp_cmf_c_trapz = trapz
    return cfg


def make_init(ch, sec, init, H):
    from renormalizer.mps import MpDm, Mps
    from renormalizer.utils import CompressConfig, CompressCriteria
    m = 8
    if init == "zero-eigenstate":
        return ch.product_mps([])
    if init == "product":
        cs = charged_sites(ch.family, ch.n)
        s = ch.product_mps(cs[:sec[0]] if ch.family != "spin" else [])
        s.compress_config = CompressConfig(CompressCriteria.fixed, max_bonddim=8)
        s = s.expand_bond_dimension(H, coef=1e-8)
        s.coeff = 1
        return s
    if init in FLAGGED_NOT_CANONICAL:
        a = ch.random_mps(sec, m, "c09", cplx=True)
        a.canonicalise()                       # one sweep: to_right=True, centre at site 0, right-canonical
        if init == "sum-after-canonicalise":
            b = ch.random_mps(sec, m, "c09b", cplx=True)
            b.canonicalise()
            s = a.add(b)
        else:
            s = H.apply(a)
        s.normalize("mps_only")
        s.coeff = 1
        return s
    s = ch.random_mps(sec, m, "c09", cplx=(init != "random-real"))
    s.canonicalise()
    s.canonicalise()           # bond dimensions within the physical limits
    if init == "complex-regauged":
        # the same vector in a non-canonical gauge with COMPLEX gauge matrices on every bond: A_i -> A_i X, A_{i+1} -> X^-1 A_{i+1}
        # (X block diagonal in the bond labels, so that the labels stay valid); direction flag and centre are left as they are
        s.ensure_left_canonical()
        rs = env.rng(0, ("c09-regauge", ch.family, ch.n))
        for k in range(1, s.site_num):
            lab = np.asarray(s.qn[k]).reshape(len(s.qn[k]), -1)
            d = len(lab)
            X = np.zeros((d, d), dtype=complex)
            for i in range(d):
                for j in range(d):
                    if np.all(lab[i] == lab[j]):
                        X[i, j] = rs.standard_normal() + 1j * rs.standard_normal()
            X = X + 2.5 * np.eye(d)
            Xi = np.linalg.inv(X)
            a = np.asarray(s[k - 1].array)
            b = np.asarray(s[k].array)
            s[k - 1] = np.tensordot(a, X, axes=(-1, 0))
            s[k] = np.tensordot(Xi, b, axes=(1, 0))
        return s
    if init == "right-canonical":
        s.ensure_right_canonical()
    elif init in ("small-norm", "large-norm"):
        # the propagator is linear: an un-normalised state (norm in the tensors, not in the prefactor) must be propagated as accurately
        s = s.scale(1e-3 if init == "small-norm" else 40.0)
        s.coeff = 1
    elif init == "centre-mid":
        s.move_qnidx(ch.n // 2)
    elif init == "mpdm":
        # a density-operator-form state whose bonds are complete (fixed-manifold schemes need the manifold to hold the result)
        def dm(tag):
            return MpDm.from_mps(ch.random_mps(sec, m, tag))
        s = H.apply(dm("c09a")).add(H.apply(H.apply(dm("c09b")))).add(dm("c09c")).add(H.apply(dm("c09d")).apply(H))
        s.canonicalise()
        s.canonicalise()
        s.normalize("mps_only")
    return s


def envelope(sname, order, fam_, hnorm, dt, ncalls):
    x = hnorm * dt
    if fam_ == "taylor":
        import math
        return 3 * ncalls * x ** (order + 1) / math.factorial(order + 1) + 1e-7
    # CMF integrates the non-centre sites with solve_ivp at its default rtol=1e-3: an error floor of that size per call
    floor = 2e-3 * ncalls if sname.startswith("cmf") else 1e-6
    if fam_ == "split":
        return 0.3 * ncalls * x ** 3 + floor
    if fam_ == "first":
        return 1.0 * ncalls * x ** 2 + floor
    if fam_ == "vmf":
        # the mean-field equations are regularised (reg_epsilon) and integrated by an adaptive RK45: accuracy ~1e-3 at best
        return 1e-2 * max(1.0, x) * ncalls + 1e-4
    if fam_ == "adaptive":
        # requested tolerances are 1e-6 (P&C) / 1e-5 (PS, CMF); largest errors observed on the repaired tree over seeds 0..3 and all initial
        # states: 2e-5 (P&C with a rejected first step), 1.4e-9 (PS), 6.5e-5 (CMF, whose non-centre sites run at solve_ivp's default rtol)
        return (2e-3 if sname.startswith("cmf") else 2e-4) * max(1.0, x) * ncalls + 1e-6
    raise ValueError(fam_)


def add(viol, sig, msg):
    if sig not in viol:
        viol[sig] = {"sig": sig, "msg": msg}


def evolve_once(s, H, dt, cfg, M=64):
    """cfg None: keep the configuration the object already carries (set once on the initial state, as a user does)"""
    from renormalizer.utils import CompressConfig, CompressCriteria
    from mc.budget import rhs_budget
    if cfg is not None:
        s.evolve_config = cfg
        s.compress_config = CompressConfig(CompressCriteria.fixed, max_bonddim=M)
    with rhs_budget(40000):
        if NORMALIZE[0]:
            return s.evolve(H, dt)
        return s.evolve(H, dt, normalize=False)


# evolve(..., normalize=True) (the default) rescales the tensor part to norm 1 by design; un-normalised initial states are therefore
# propagated with normalize=False, where linearity  evolve(c psi) = c evolve(psi)  is what the property demands
NORMALIZE = [True]


CONFIG_FIELDS = ("method", "adaptive", "tdvp_cmf_midpoint", "tdvp_cmf_c_trapz", "ivp_solver", "force_ovlp")


def classify_exception(e):
    import sys
    import traceback
    tb = traceback.extract_tb(sys.exc_info()[2])
    lib = [f.name for f in tb if "/renormalizer/" in f.filename]
    return f"{type(e).__name__}:{lib[-1] if lib else '?'}"


def refusal(e):
    import sys
    import traceback
    msg = str(e)
    if isinstance(e, (NotImplementedError,)) or (isinstance(e, ValueError) and ("real and imag not compatible" in msg or "wrong direction" in msg)):
        return True
    if isinstance(e, AssertionError):
        tb = traceback.extract_tb(sys.exc_info()[2])
        lib = [f for f in tb if "/renormalizer/" in f.filename]
        # the precondition asserts at the top of canonicalise()/compress(): "centre at the chain end matching the direction"
        if lib and lib[-1].name in ("canonicalise", "compress") and lib[-1].line and "self.qnidx ==" in lib[-1].line:
            return True
    return False


def run_ladder(desc, seed):
    from mc.budget import BudgetExceeded
    NORMALIZE[0] = desc["init"] not in ("small-norm", "large-norm")
    try:
        return run_ladder_(desc, seed)
    finally:
        NORMALIZE[0] = True


def run_ladder_(desc, seed):
    from mc.budget import BudgetExceeded
    ch = Chain(desc["fam"], desc["n"], seed)
    sec = desc["sector"]
    S = schemes()
    spec, order, fam_ = S[desc["scheme"]]
    H = ch.mpo_neutral()
    Hd = np.asarray(H.todense())
    hnorm = np.abs(np.linalg.eigvalsh((Hd + Hd.conj().T) / 2)).max()
    viol = {}
    tag = f"[{desc['fam']} n={desc['n']} sector={sec} init={desc['init']} scheme={desc['scheme']}]"
    is_dm = desc["init"] == "mpdm"
    try:
        psi0 = make_init(ch, sec, desc["init"], H)
    except Exception as e:
        return {"skipped": 1, "outcome": f"init-failed:{type(e).__name__}"}
    v0 = dense_of(psi0)
    nrun = 0
    errs = {}
    moved = False
    stiff = [0]

    def exact(t):
        U = scipy.linalg.expm(-1j * t * Hd)
        return U @ v0

    from renormalizer.utils import CompressConfig, CompressCriteria
    # the configuration is set ONCE on the initial object; every later call re-uses what the objects carry
    psi0.evolve_config = make_config(spec)
    psi0.compress_config = CompressConfig(CompressCriteria.fixed, max_bonddim=64)
    cfg_snap = {k: getattr(psi0.evolve_config, k) for k in CONFIG_FIELDS}

    def run(obj, dt, ncalls=1):
        nonlocal nrun
        cur = obj
        for _ in range(ncalls):
            cur = evolve_once(cur, H, dt, None)
            nrun += 1
            now = {k: getattr(obj.evolve_config, k) for k in CONFIG_FIELDS}
            if now != cfg_snap:
                add(viol, f"C09:input-config-changed:{desc['scheme'].split(':')[0]}", f"{tag}: evolve changed the configuration of its input object: {cfg_snap} -> {now}")
        return cur

    for dt in LADDER:
        try:
            snap = dense_of(psi0)
            out = run(psi0, dt)
        except BudgetExceeded:
            if fam_ in ("vmf",) or desc["scheme"].startswith("cmf"):
                stiff[0] += 1      # regularised mean-field equations with nearly singular bonds are stiff (value dependent, DESIGN.md section 8)
                continue
            add(viol, f"C09:horizon:{desc['scheme']}", f"{tag} dt={dt}: more than 40000 right-hand-side evaluations in one call")
            continue
        except Exception as e:
            if refusal(e):
                return {"rejected": 1, "outcome": "refused"}
            ce = classify_exception(e)
            if desc["init"] == "zero-eigenstate" and isinstance(e, AssertionError) and ce.split(":")[1] in ("_push_cano", "scale", "_update_ms") and desc["scheme"].startswith("pc-"):
                add(viol, "C09:pc:zero-intermediate:zero-eigenstate", f"{tag} dt={dt}: {e!r} in {ce.split(':')[1]} (H|psi> is the zero vector)")
            else:
                add(viol, f"C09:exception:{ce}:{desc['scheme'].split(':')[0]}:{desc['init']}", f"{tag} dt={dt}: {e!r}")
            break
        phi = dense_of(out)
        ref = exact(dt)
        err = np.linalg.norm(phi - ref) / np.linalg.norm(ref)
        errs[dt] = err
        if np.linalg.norm(ref - v0) > 1e-3 * np.linalg.norm(v0):
            moved = True
        lim = envelope(desc["scheme"], order, fam_, hnorm, dt, 1)
        if hnorm * dt > 0.8 and fam_ in ("taylor", "split", "first"):
            lim = max(lim, 2.0) if np.isfinite(err) else lim      # outside the asymptotic range: only finiteness and the order check use this step
        if not np.isfinite(err) or err > lim:
            add(viol, f"C09:propagator:{desc['scheme']}:{desc['init']}", f"{tag} dt={dt}: relative error {err:.3e} exceeds the envelope {lim:.3e} (||H||={hnorm:.2f}); bond dims {out.bond_dims}")
        if not close(dense_of(psi0), snap, 1e-9):
            add(viol, f"C09:input-changed:{desc['scheme'].split(':')[0]}", f"{tag} dt={dt}: the input state changed")
        if out is psi0:
            add(viol, f"C09:returns-input:{desc['scheme'].split(':')[0]}", f"{tag}")
    # the same vector in two gauges: the regauged state against its left-canonical original (differential, much sharper than the envelope of
    # the regularised mean-field schemes): the two results may differ by what each of them differs from the dense propagator, not more
    if desc["init"] == "complex-regauged" and not viol:
        try:
            can = make_init(ch, sec, "random-complex", H)
            can.ensure_left_canonical()
            can.evolve_config = make_config(spec)
            can.compress_config = CompressConfig(CompressCriteria.fixed, max_bonddim=64)
            if close(dense_of(can), v0, 1e-9):
                dt = 0.1
                oc = dense_of(run(can, dt))
                og = dense_of(run(psi0, dt))
                ref = exact(dt)
                ec = np.linalg.norm(oc - ref) / np.linalg.norm(ref)
                dev = np.linalg.norm(og - oc) / np.linalg.norm(ref)
                if dev > 20 * ec + 1e-6:
                    add(viol, f"C09:gauge-dependence:{desc['scheme'].split(':')[0]}", f"{tag} dt={dt}: the result for the regauged state differs from the result for its left-canonical "
                        f"original (same vector) by rel {dev:.3e}, the latter is within {ec:.3e} of the dense propagator")
        except BudgetExceeded:
            pass
        except Exception as e:
            if not refusal(e):
                add(viol, f"C09:exception:{classify_exception(e)}:{desc['scheme'].split(':')[0]}:{desc['init']}", f"{tag} gauge comparison: {e!r}")
    # order
    if order and not viol:
        for a, b in zip(LADDER[:-1], LADDER[1:]):
            floor = 5e-3 if desc["scheme"].startswith("cmf") else 1e-6      # CMF integrates the non-centre sites with solve_ivp's default rtol 1e-3
            if a in errs and b in errs and errs[a] > floor and errs[b] > floor / 100 and hnorm * a <= 0.8:
                if errs[a] / errs[b] < 2 ** (order + 1 - 0.6):
                    add(viol, f"C09:order:{desc['scheme']}", f"{tag}: one-call error {errs[a]:.3e} (dt={a}) -> {errs[b]:.3e} (dt={b}): ratio {errs[a] / errs[b]:.2f} < 2^{order + 1 - 0.6:.1f}")
    # splits of t = 0.2 into 1, 2, 4 calls from the SAME initial object; and the same from a fresh object
    if not viol:
        T = 0.2
        res = {}
        try:
            for nc in (1, 2, 4):
                res[nc] = dense_of(run(psi0, T / nc, nc))
            fresh = make_init(ch, sec, desc["init"], H)
            fresh.evolve_config = make_config(spec)
            fresh.compress_config = CompressConfig(CompressCriteria.fixed, max_bonddim=64)
            res["fresh"] = dense_of(run(fresh, T / 2, 2))
        except BudgetExceeded:
            add(viol, f"C09:horizon:{desc['scheme']}", f"{tag}: split runs exceed the budget")
        except Exception as e:
            add(viol, f"C09:exception:{classify_exception(e)}:{desc['scheme'].split(':')[0]}:{desc['init']}", f"{tag} split runs: {e!r}")
        if len(res) == 4:
            ref = exact(T)
            for nc in (1, 2, 4):
                err = np.linalg.norm(res[nc] - ref) / np.linalg.norm(ref)
                lim = envelope(desc["scheme"], order, fam_, hnorm, T / nc, nc)
                if err > lim:
                    add(viol, f"C09:split:{desc['scheme']}", f"{tag}: t={T} in {nc} calls: error {err:.3e} > {lim:.3e}")
            d = np.linalg.norm(res[2] - res["fresh"]) / np.linalg.norm(ref)
            if d > (1e-8 if fam_ != "adaptive" else 20 * spec.get("adaptive_rtol", 5e-4)):
                add(viol, f"C09:history-dependence:{desc['scheme'].split(':')[0]}", f"{tag}: evolving t={T} in 2 calls from the re-used initial object and from a fresh one differ by {d:.3e}")
    return {"nontrivial": (moved and (max(psi0.bond_dims) > 1)) or desc["init"] in ("product", "zero-eigenstate"), "counters": {"evolve_calls": nrun, "stiff_mean_field_runs_over_budget": stiff[0]}, "outcome": f"{fam_}:{'viol' if viol else 'ok'}",
            "viol": list(viol.values()), "sample": {"desc": desc, "errors": {str(k): float(v) for k, v in errs.items()}, "hnorm": float(hnorm)}}


def run_history(desc, seed):
    from mc.budget import BudgetExceeded
    ch = Chain(desc["fam"], desc["n"], seed)
    sec = desc["sector"]
    S = schemes()
    H = ch.mpo_neutral()
    Hd = np.asarray(H.todense())
    hnorm = np.abs(np.linalg.eigvalsh((Hd + Hd.conj().T) / 2)).max()
    viol = {}
    nrun = 0
    dts = {"cmf-midpoint:RK45": 0.05}
    for second in MENU:
        for third in MENU:
            seq = [desc["first"], second, third]
            psi0 = make_init(ch, sec, "random-complex", H)
            v0 = dense_of(psi0)
            cur = psi0
            lim = 0.0
            T = 0.0
            ok = True
            for nm in seq:
                spec, order, fam_ = S[nm]
                dt = dts.get(nm, 0.1)
                try:
                    cur = evolve_once(cur, H, dt, make_config(spec))
                    nrun += 1
                except BudgetExceeded:
                    add(viol, f"C09:horizon:history", f"{desc['fam']} history {seq}: budget exceeded at {nm}")
                    ok = False
                    break
                except Exception as e:
                    add(viol, f"C09:history:exception:{classify_exception(e)}", f"{desc['fam']} history {seq}: {nm} raised {e!r}")
                    ok = False
                    break
                lim += envelope(nm, order, fam_, hnorm, dt, 1)
                T += dt
            if not ok:
                continue
            ref = scipy.linalg.expm(-1j * T * Hd) @ v0
            err = np.linalg.norm(dense_of(cur) - ref) / np.linalg.norm(ref)
            if err > lim:
                ndev = sum(1 for a, b in zip(seq[:-1], seq[1:]) if a != b)
                add(viol, f"C09:history:{ndev}-deviations", f"{desc['fam']} history {seq}: error {err:.3e} > summed envelopes {lim:.3e}")
    return {"nontrivial": True, "counters": {"evolve_calls": nrun, "histories": len(MENU) ** 2}, "outcome": f"history:{'viol' if viol else 'ok'}", "viol": list(viol.values()),
            "sample": {"desc": desc}}


def run_td(desc, seed):
    """time-dependent Hamiltonian callable H(t) = (1 + 0.5 sin(3t)) H0 + 0.3 t V"""
    from renormalizer.mps import Mpo
    from mc.budget import BudgetExceeded
    ch = Chain(desc["fam"], desc["n"], seed)
    sec = desc["sector"]
    S = schemes()
    spec, order, fam_ = S[desc["scheme"]]
    H0 = ch.mpo_neutral()
    Vt = ch.h_terms[:2]
    V = Mpo(ch.new_model(), Vt)
    H0d, Vd = np.asarray(H0.todense()), np.asarray(V.todense())
    hnorm = np.abs(np.linalg.eigvalsh((H0d + H0d.conj().T) / 2)).max() * 1.5

    def f(t):
        return 1 + 0.5 * np.sin(3 * t), 0.3 * t

    def mpo_t(t, *a, **k):
        c0, c1 = f(t)
        return H0.scale(c0).add(V.scale(c1)) if abs(c1) > 0 else H0.scale(c0)

    viol = {}
    tag = f"[{desc['fam']} time-dependent scheme={desc['scheme']}]"
    psi0 = make_init(ch, sec, "random-complex", H0)
    v0 = dense_of(psi0)
    nrun = 0
    errs = {}
    accepts_callable = desc["scheme"].startswith(("pc-rk", "vmf"))
    for dt in (0.2, 0.1, 0.05):
        sol = scipy.integrate.solve_ivp(lambda t, y: -1j * ((f(t)[0] * H0d + f(t)[1] * Vd) @ y), (0, dt), v0.astype(complex), method="DOP853", rtol=1e-12, atol=1e-14)
        ref = sol.y[:, -1]
        try:
            out = evolve_once(psi0, mpo_t, dt, make_config(spec))
            nrun += 1
        except BudgetExceeded:
            add(viol, f"C09:horizon:time-dependent:{desc['scheme']}", f"{tag} dt={dt}")
            continue
        except (TypeError, AttributeError) as e:
            # schemes that only take an Mpo refuse a callable
            return {"rejected": 1, "outcome": "callable-refused"}
        except Exception as e:
            add(viol, f"C09:time-dependent:exception:{classify_exception(e)}:{desc['scheme']}", f"{tag} dt={dt}: {e!r}")
            break
        err = np.linalg.norm(dense_of(out) - ref) / np.linalg.norm(ref)
        errs[dt] = err
        lim = 5 * envelope(desc["scheme"], order, fam_, hnorm, dt, 1)
        if err > lim:
            add(viol, f"C09:time-dependent:{desc['scheme']}", f"{tag} dt={dt}: error {err:.3e} > {lim:.3e}")
    if order and len(errs) == 3 and not viol:
        for a, b in ((0.2, 0.1), (0.1, 0.05)):
            if errs[a] > 1e-6 and errs[b] > 1e-8 and errs[a] / errs[b] < 2 ** (order + 1 - 0.8):
                add(viol, f"C09:time-dependent:order:{desc['scheme']}", f"{tag}: error {errs[a]:.3e} (dt={a}) -> {errs[b]:.3e} (dt={b}): ratio {errs[a] / errs[b]:.2f}")
    return {"nontrivial": True, "counters": {"evolve_calls": nrun}, "outcome": f"td:{'viol' if viol else 'ok'}", "viol": list(viol.values()),
            "sample": {"desc": desc, "errors": {str(k): float(v) for k, v in errs.items()}}}


def run_truncated(desc, seed):
    """bond limit respected by every scheme; TDVP-PS conserves norm and energy at any bond dimension"""
    from mc.budget import BudgetExceeded
    ch = Chain(desc["fam"], desc["n"], seed)
    sec = desc["sector"]
    S = schemes()
    spec, order, fam_ = S[desc["scheme"]]
    H = ch.mpo_neutral()
    viol = {}
    tag = f"[{desc['fam']} truncated scheme={desc['scheme']}]"
    nrun = 0
    for M in (1, 2):
        from renormalizer.utils import CompressConfig, CompressCriteria
        s = ch.random_mps(sec, 8, "c09t", cplx=True)
        s.ensure_left_canonical()
        s.compress_config = CompressConfig(CompressCriteria.fixed, max_bonddim=M)
        s.compress()
        s.normalize("mps_only")
        if max(s.bond_dims) > M:
            continue
        e0 = s.expectation(H)
        cur = s
        try:
            for k in range(3):
                cur = evolve_once(cur, H, 0.1, make_config(spec), M=M)
                nrun += 1
                if max(cur.bond_dims) > M:
                    add(viol, f"C09:bond-limit:{desc['scheme'].split(':')[0]}", f"{tag} M={M}: bond dims {cur.bond_dims} after call {k + 1}")
                if desc["scheme"].startswith("ps:") and "adaptive" not in desc["scheme"]:
                    if abs(cur.mp_norm - 1) > 1e-8:
                        add(viol, "C09:ps:norm-not-conserved", f"{tag} M={M}: norm {cur.mp_norm} after call {k + 1}")
                    if abs(cur.expectation(H) - e0) > 1e-7 * max(1.0, abs(e0)):
                        add(viol, "C09:ps:energy-not-conserved", f"{tag} M={M}: energy {e0} -> {cur.expectation(H)}")
        except BudgetExceeded:
            add(viol, f"C09:horizon:truncated:{desc['scheme']}", f"{tag} M={M}")
        except Exception as e:
            if refusal(e):
                continue
            add(viol, f"C09:truncated:exception:{classify_exception(e)}:{desc['scheme'].split(':')[0]}", f"{tag} M={M}: {e!r}")
    if desc["scheme"] in ("ps:krylov", "ps2:krylov", "ps:RK45", "ps2:RK45") and desc["fam"] == MODELS[0][0]:
        nrun += gauge_history_block(desc, seed, spec, viol, tag)
    return {"nontrivial": nrun > 0, "counters": {"evolve_calls": nrun}, "outcome": f"trunc:{'viol' if viol else 'ok'}", "viol": list(viol.values()), "sample": {"desc": desc}}


def gauge_history_block(desc, seed, spec, viol, tag, times=("real", "imag"), sigprefix="C09"):
    """projector splitting at TRUNCATED bond dimension on a state whose flags say 'right-canonical, centre at site 0' while its tensors
    are not (gauge sweep, then a sum or an operator application): the result must equal the result for the re-gauged copy of the same
    vector, and one-site splitting must conserve norm and energy in real time.  Needs a chain long enough for an incomplete bond."""
    import copy as _copy
    from renormalizer.utils import CompressConfig, CompressCriteria
    nrun = 0
    for fam, n, sec in (("spin", 6, [0]), ("elec", 5, [2])):
        ch = Chain(fam, n, seed)
        H = ch.mpo_neutral()
        for hist in ("sum", "apply"):
            a = ch.random_mps(sec, 2, "c09gh-a", cplx=True)
            a.canonicalise()
            if hist == "sum":
                b = ch.random_mps(sec, 2, "c09gh-b", cplx=True)
                b.canonicalise()
                s = a.add(b)
            else:
                s = H.apply(a)
            s.normalize("mps_only")
            s.coeff = 1
            M = max(s.bond_dims)
            for timek in times:
                step = 0.1 if timek == "real" else -0.1j
                s1, s2 = _copy.deepcopy(s), _copy.deepcopy(s)
                s2.ensure_left_canonical()
                s2.canonicalise()
                if not close(dense_of(s2), dense_of(s1), 1e-10):
                    continue      # (owned by C04)
                try:
                    e0 = s1.expectation(H)
                    r1 = evolve_once(s1, H, step, make_config(spec), M=M)
                    r2 = evolve_once(s2, H, step, make_config(spec), M=M)
                    nrun += 2
                except Exception as e:
                    if refusal(e):
                        continue
                    add(viol, f"{sigprefix}:gauge-history:exception:{classify_exception(e)}:{desc['scheme'].split(':')[0]}", f"{tag} [{fam} n={n} {hist} {timek}]: {e!r}")
                    continue
                d1, d2 = dense_of(r1), dense_of(r2)
                dev = np.linalg.norm(d1 - d2) / max(np.linalg.norm(d2), 1e-300)
                if dev > 1e-6:
                    add(viol, f"{sigprefix}:gauge-history:result-depends-on-input-gauge:{desc['scheme'].split(':')[0]}:{timek}",
                        f"{tag} [{fam} n={n} history: sweep, then {hist}; {timek} step; bond dims {s.bond_dims}]: the result differs from the result for the re-gauged copy of the same vector by rel {dev:.2e}")
                if timek == "real" and desc["scheme"].startswith("ps:"):
                    if abs(r1.mp_norm - 1) > 1e-8:
                        add(viol, f"{sigprefix}:ps:norm-not-conserved", f"{tag} [{fam} n={n} history {hist}]: norm {r1.mp_norm}")
                    if abs(r1.expectation(H) - e0) > 1e-7 * max(1.0, abs(e0)):
                        add(viol, f"{sigprefix}:ps:energy-not-conserved", f"{tag} [{fam} n={n} history {hist}]: energy {e0} -> {r1.expectation(H)}")
    return nrun


def run_solver(desc, seed):
    """the result must not depend on the local integrator: krylov vs RK45 (both at tight tolerances)"""
    from mc.budget import BudgetExceeded
    ch = Chain(desc["fam"], desc["n"], seed)
    sec = desc["sector"]
    S = schemes()
    H = ch.mpo_neutral()
    Hd = np.asarray(H.todense())
    hnorm = np.abs(np.linalg.eigvalsh((Hd + Hd.conj().T) / 2)).max()
    viol = {}
    nrun = 0
    tag = f"[{desc['fam']} init={desc['init']} scheme={desc['scheme']}]"
    for dt in (0.8, 0.4, 0.2, 0.1):
        res = {}
        for solver in ("krylov", "RK45"):
            try:
                psi0 = make_init(ch, sec, desc["init"], H)
                spec, order, fam_ = S[f"{desc['scheme']}:{solver}"]
                res[solver] = dense_of(evolve_once(psi0, H, dt, make_config(spec)))
                nrun += 1
            except BudgetExceeded:
                if not desc["scheme"].startswith("cmf"):
                    add(viol, f"C09:horizon:solver:{desc['scheme']}:{solver}", f"{tag} dt={dt}")
            except Exception as e:
                add(viol, f"C09:solver:exception:{classify_exception(e)}:{desc['scheme']}:{solver}", f"{tag} dt={dt}: {e!r}")
        if len(res) == 2:
            d = np.linalg.norm(res["krylov"] - res["RK45"]) / np.linalg.norm(res["RK45"])
            if d > 5e-4:      # krylov stops at allclose(rtol=1e-5) per local problem; a scheme makes a few tens of local calls
                v0 = dense_of(make_init(ch, sec, desc["init"], H))
                ref = scipy.linalg.expm(-1j * dt * Hd) @ v0
                ek = np.linalg.norm(res["krylov"] - ref) / np.linalg.norm(ref)
                er = np.linalg.norm(res["RK45"] - ref) / np.linalg.norm(ref)
                add(viol, f"C09:solver-dependence:{desc['scheme']}", f"{tag} dt={dt} (||H|| dt = {hnorm * dt:.2f}): krylov and RK45 results differ by {d:.3e} (errors vs expm: krylov {ek:.3e}, RK45 {er:.3e})")
    return {"nontrivial": True, "counters": {"evolve_calls": nrun}, "outcome": f"solver:{'viol' if viol else 'ok'}", "viol": list(viol.values()), "sample": {"desc": desc}}


def run_step_type(desc, seed):
    """the same time step handed over in every numeric type a caller may hold it in: the result must not depend on the type.
    A TypeError that names the complex type (python complex with zero imaginary part in the integrators) is a refusal."""
    from mc.budget import BudgetExceeded
    ch = Chain(desc["fam"], desc["n"], seed)
    sec = desc["sector"]
    S = schemes()
    H = ch.mpo_neutral()
    viol = {}
    nrun = nref = 0
    spec, order, fam_ = S[desc["scheme"]]
    tag = f"[{desc['fam']} scheme={desc['scheme']}]"
    reps = {"real": [("float", 0.1), ("np.float64", np.float64(0.1)), ("complex(0.1,0)", complex(0.1, 0.0)), ("np.complex128(0.1)", np.complex128(0.1))]}
    if not spec.get("adaptive"):
        reps["imag"] = [("-0.1j", -0.1j), ("np.complex128(-0.1j)", np.complex128(-0.1j)), ("complex(0,-0.1)", complex(0.0, -0.1))]
    for timek, lst in reps.items():
        ref = None
        for name, step in lst:
            psi0 = make_init(ch, sec, "random-complex", H)
            try:
                out = evolve_once(psi0, H, step, make_config(spec))
                v = dense_of(out)
                nrun += 1
            except TypeError as e:
                if "complex" in str(e):
                    nref += 1
                    continue
                add(viol, f"C09:step-type:exception:TypeError:{desc['scheme'].split(':')[0]}:{timek}", f"{tag}: step given as {name}: {e!r}")
                continue
            except BudgetExceeded:
                continue
            except Exception as e:
                if refusal(e):
                    nref += 1
                    continue
                add(viol, f"C09:step-type:exception:{classify_exception(e)}:{desc['scheme'].split(':')[0]}:{timek}", f"{tag}: step given as {name}: {e!r}")
                continue
            if ref is None:
                ref = v
            elif not close(v, ref, 1e-8):
                add(viol, f"C09:step-type:{desc['scheme'].split(':')[0]}:{timek}", f"{tag}: the step given as {name} gives a result that differs from the step given as {lst[0][0]} by rel {rel_err(v, ref):.2e}")
    # backward propagation: a negative real step must reproduce exp(+iH|t|) within the same envelope as the forward one
    Hd = np.asarray(H.todense())
    hnorm = np.abs(np.linalg.eigvalsh((Hd + Hd.conj().T) / 2)).max()
    for dt in (-0.1, -0.5):
        spec_b = dict(spec)
        if spec_b.get("adaptive"):
            spec_b["guess_dt"] = -abs(spec_b["guess_dt"])
        psi0 = make_init(ch, sec, "random-complex", H)
        v0 = dense_of(psi0)
        try:
            out = evolve_once(psi0, H, dt, make_config(spec_b))
            nrun += 1
        except BudgetExceeded:
            continue
        except Exception as e:
            if refusal(e):
                nref += 1
                continue
            add(viol, f"C09:backward:exception:{classify_exception(e)}:{desc['scheme'].split(':')[0]}", f"{tag} dt={dt}: {e!r}")
            continue
        ref = scipy.linalg.expm(-1j * dt * Hd) @ v0
        err = np.linalg.norm(dense_of(out) - ref) / np.linalg.norm(ref)
        lim = envelope(desc["scheme"], order, fam_, hnorm, abs(dt), 1)
        if abs(dt) * hnorm > 0.8 and fam_ in ("taylor", "split", "first"):
            lim = max(lim, 0.5)      # outside the range where the order envelopes are meaningful: only gross failures
        if err > lim:
            add(viol, f"C09:backward:propagator:{desc['scheme']}", f"{tag} dt={dt}: relative error {err:.3e} exceeds the envelope {lim:.3e} for a negative time step")
    return {"nontrivial": nrun >= 2, "rejected": 0, "counters": {"evolve_calls": nrun, "step_type_refused": nref}, "outcome": f"step-type:{'viol' if viol else 'ok'}",
            "viol": list(viol.values()), "sample": {"desc": desc, "runs": nrun, "refused": nref}}


def run_case(desc, seed):
    k = desc["k"]
    if k == "step-type":
        return run_step_type(desc, seed)
    if k == "solver":
        return run_solver(desc, seed)
    if k == "ladder":
        return run_ladder(desc, seed)
    if k == "history":
        return run_history(desc, seed)
    if k == "time-dependent":
        return run_td(desc, seed)
    return run_truncated(desc, seed)
