"""C02 -- TTNO construction is exact and independent of the tree topology.   (E1)

(A) every plane (ordered rooted) tree with <= N nodes x every distribution of the m basis sets over the nodes (ordered
    inside a node; nodes receiving none become purely virtual BasisDummy nodes -- as root, internal node or leaf; nodes
    receiving several carry several physical indices) x term tables (all tables with k<=2 rows over a small alphabet, all
    single rows over the larger alphabet, hand-shaped tables: shared prefix, complementary pair, Heisenberg-like,
    rank-deficient for QR, all-identity constant, term living on one subtree only, single term with non-unit factor,
    duplicate terms that merge) x algorithms {Hopcroft-Karp, Hungarian, qr}.
(B) every library constructor (linear, binary, general_mctdh with tree order 2 and 3, contract_primitive on/off, ALL
    contract_label bit vectors, t3ns) for 2..7 basis sets.
Oracle: TTNO.todense(order) == dense sum of Kronecker products in that order == Mpo of the linear chain; for (B) also: the
multiset of basis sets of the tree equals the input list exactly once each.
"""
import functools
import itertools

import numpy as np

from mc import env  # noqa: F401
from mc import tables as T
from mc import trees as TR
from mc.space import plane_trees
from mc.ref.dense import close, rel_err

ID = "C02"
LEVEL = "exploration"
RULE = ("(A) one case = (plane tree, distribution of basis sets, basis family) running every term table and every algorithm; (B) one case = (constructor, "
        "parameters, number of basis sets); non-trivial = the tree has >= 2 nodes and at least one table has a non-zero reference with some TTNO bond > 1; "
        "distinct = distinct descriptor; counters give the number of TTNO constructions")
ASSUMPTIONS = [
    "local matrices from BasisSet.op_mat (C16); dense reference by np.kron in an explicit order of the physical basis sets",
    "operators with complex local matrices are refused by the library ('complex operator not supported yet'): counted as rejected",
    "relative tolerance 1e-9",
]
HORIZON_S = 600
ALGOS = ["Hopcroft-Karp", "Hungarian", "qr"]
TOL = 1e-9

FAMS = {"spin3": ("S", "S", "S"), "eph3": ("E", "B", "E"), "mixed3": ("V", "B2", "Sq"), "spin4": ("S", "S", "S", "S"), "eph4": ("E", "B", "E", "B")}


def BOUND(tier):
    if tier == "quick":
        return {"A": "plane trees <= 4 nodes, m = 3 basis sets (spin; eph and multi-dof families on trees <= 3 nodes); all k<=2 tables on trees <= 3 nodes, single rows + hand-shaped tables on 4 nodes", "B": "2..6 basis sets"}
    return {"A": "plane trees <= 4 nodes with the complete k<=2 table enumeration for m = 3 (three families), <= 3 nodes for m = 4; single rows + hand-shaped tables on "
                 "4-node trees (m = 4, every third distribution) and 5-node trees (spin, m = 3)", "B": "2..7 basis sets"}


@functools.lru_cache(maxsize=64)
def family(kinds, s):
    return T.Family(kinds, s)


def table_set(fam1, fam2, small):
    """(family-with-alphabet, table, factors, algorithms)"""
    out = []
    if not small:
        for t in T.tables(fam1, 2):
            out.append((fam1, t, [1.0, -0.5][:len(t)], ["Hopcroft-Karp", "qr"]))
    for r in fam2.rows():
        out.append((fam2, (r,), [2.5], ALGOS))            # single term, non-unit factor
    n = fam2.n
    sz = fam2.sizes()
    def row(*pairs):
        r = [0] * n
        for i, v in pairs:
            r[i] = min(v, sz[i] - 1)
        return tuple(r)
    hand = [
        (row((0, 1), (1, 1)), row((0, 1), (2, 1))),                       # shared prefix
        (row((0, 1), (n - 1, 1)), row((0, 2), (n - 1, 2))),               # complementary pair
        (row((0, 1), (1, 1)), row((0, 2), (1, 2)), row((1, 1), (2, 1)), row((1, 2), (2, 2))),   # Heisenberg-like
        (row((0, 1), (1, 1)), row((0, 1), (1, 2)), row((0, 2), (1, 1)), row((0, 2), (1, 2))),   # rank-deficient Gamma for QR
        (row(),),                                                         # all-identity constant
        (row((n - 1, 1)), row((n - 1, 2))),                               # terms living on one site / subtree only
        (row((1, 1)), row((1, 1))),                                       # duplicates that merge into one term with factor != 1
        (row((0, 1), (1, 1), (2, 1)), row((0, 2)), row((2, 2))),
    ]
    for h in hand:
        fa = [1.0, 0.5, -0.7, 1.3][:len(h)]
        if len(h) == 4 and h[0][:2] == h[1][:2][:1] + h[1][1:2]:
            pass
        out.append((fam2, h, fa, ALGOS))
    out.append((fam2, hand[3], [1.0, 1.0, 1.0, 1.0], ALGOS))                     # exactly rank-one coefficient matrix
    return out


def cases(tier, seed):
    from mc import rebuild as RB
    for tname in HISTORY_TREES:
        for h in RB.histories(tier):
            yield {"k": "C", "tree": tname, "history": h}
        for e1, e2 in itertools.product(RB.inplace_edits(), repeat=2):
            yield {"k": "C", "tree": tname, "history": ["inplace", e1, e2]}
    # the same Op objects (incl. identities spelled over several dofs, with prefactors) for basis lists that group the dofs differently
    for a, b in itertools.permutations(RB.regroupings(), 2):
        yield {"k": "C", "tree": "per-basis-set", "history": ["regroup", a, b]}
    yield from cases_(tier, seed)


def cases_(tier, seed):
    quick = tier == "quick"
    Nmax = 4 if quick else 5
    for famname in (("spin3", "eph3", "mixed3") if quick else ("spin3", "eph3", "mixed3", "spin4", "eph4")):
        m = len(FAMS[famname])
        for N in range(1, Nmax + 1):
            if quick and famname != "spin3" and N > 3:
                continue
            if m == 4 and N > 4:
                continue
            if not quick and N == 5 and famname != "spin3":
                continue       # five-node trees: spin family only (thorough budget)
            for parent in plane_trees(N):
                for dist in TR.distributions(m, N):
                    if m == 4 and N == 4 and (sum(len(g) * (i + 1) for i, g in enumerate(dist)) % 3):
                        continue   # m=4, N=4: every third distribution (stated in BOUND) to stay inside the thorough budget
                    # the complete k<=2 table enumeration runs on trees up to 3 nodes (quick) / 4 nodes (thorough); larger trees
                    # get every single-row table and the hand-shaped tables
                    yield {"k": "A", "fam": famname, "parent": parent, "groups": [list(g) for g in dist], "small": N > (3 if (quick or m == 4) else 4)}
    for nb in range(2, (6 if quick else 7) + 1):
        yield {"k": "B", "ctor": "linear", "nb": nb}
        yield {"k": "B", "ctor": "binary", "nb": nb}
        yield {"k": "B", "ctor": "t3ns", "nb": nb}
        for order in (2, 3):
            yield {"k": "B", "ctor": "mctdh", "nb": nb, "order": order, "contract": False}
            yield {"k": "B", "ctor": "mctdh", "nb": nb, "order": order, "contract": True, "label": None}
            for bits in itertools.product((0, 1), repeat=nb):
                yield {"k": "B", "ctor": "mctdh", "nb": nb, "order": order, "contract": True, "label": list(bits)}


def check_ttno(tree, order_basis, fam, table, factors, viol, tag, counters, mpo_cache, algos=ALGOS):
    from renormalizer.tn import TTNO
    from renormalizer.mps import Mpo
    from renormalizer.model import Model
    ref = fam.dense(table, factors)
    if np.abs(ref).max() == 0:
        return False
    has_complex = any(np.iscomplexobj(fam.local_matrix(i, idx)) and np.abs(np.imag(fam.local_matrix(i, idx))).max() > 0 for r in table for i, idx in enumerate(r))
    terms = [fam.term(r, f) for r, f in zip(table, factors)]
    nontrivial = False
    key = (tuple(table), tuple(factors))
    if key not in mpo_cache:
        try:
            mpo_cache[key] = Mpo(Model(list(fam.basis), []), terms).todense()
        except Exception as e:
            mpo_cache[key] = None
    for algo in algos:
        counters["ttno_constructions"] = counters.get("ttno_constructions", 0) + 1
        try:
            ttno = TTNO(tree, terms, algo=algo)
            dense = ttno.todense(order_basis)
        except AssertionError as e:
            if "complex operator not supported" in str(e) and has_complex:
                counters["rejected"] = counters.get("rejected", 0) + 1
                continue
            viol.setdefault(f"C02:exception:AssertionError:{algo}", {"sig": f"C02:exception:AssertionError:{algo}", "msg": f"{tag} table={table} factors={factors}: {e!r}"})
            continue
        except Exception as e:
            import sys
            import traceback
            tb = traceback.extract_tb(sys.exc_info()[2])
            lib = [f.name for f in tb if "/renormalizer/" in f.filename]
            sig = f"C02:exception:{type(e).__name__}:{lib[-1] if lib else '?'}"
            viol.setdefault(sig, {"sig": sig, "msg": f"{tag} algo={algo} table={table} factors={factors}: {e!r}"})
            continue
        single = len(set(table)) == 1
        if not close(dense, ref, TOL):
            sig = f"C02:mismatch:{algo}:{'single-term' if single else 'multi-term'}"
            viol.setdefault(sig, {"sig": sig, "msg": f"{tag} algo={algo} table={table} factors={factors}: TTNO.todense differs from the dense sum by rel {rel_err(dense, ref):.2e}; bond dims {ttno.bond_dims}"})
            continue
        if mpo_cache[key] is not None and not close(dense, mpo_cache[key], TOL):
            sig = f"C02:differs-from-chain-mpo:{algo}"
            viol.setdefault(sig, {"sig": sig, "msg": f"{tag} table={table}: TTNO differs from the chain MPO"})
        if max(ttno.bond_dims) > 1:
            nontrivial = True
    return nontrivial


HISTORY_TREES = {"linear": ([-1, 0, 1], [[0], [1], [2]]), "star+virtual-root": ([-1, 0, 0, 0], [[], [0], [1], [2]]), "grouped": ([-1, 0], [[0, 1], [2]])}


def run_history(desc, seed):
    """(C) construction histories in one process: see mc/rebuild.py"""
    from renormalizer.tn import TTNO
    from mc import rebuild as RB
    V = RB.variants()
    viol = {}
    nb = 0
    if desc["history"][0] == "regroup":
        G = RB.regroupings()
        terms = RB.regroup_terms()
        for step, name in enumerate(desc["history"][1:]):
            basis = G[name]
            ref = RB.dense_of_ops(basis, terms)
            m = len(basis)
            for tname, parent, groups in (("linear", list(range(-1, m - 1)), [[i] for i in range(m)]), ("star", [-1] + [0] * (m - 1), [[i] for i in range(m)]),
                                          ("all-on-one-node", [-1], [list(range(m))])):
                for algo in ("Hopcroft-Karp", "qr"):
                    try:
                        tree = TR.build_basis_tree(parent, groups, basis)
                        got = np.asarray(TTNO(tree, terms, algo=algo).todense(list(basis)))
                    except Exception as e:
                        sig = f"C02:history:regroup:exception:{type(e).__name__}:{'first' if step == 0 else 'later'}"
                        viol.setdefault(sig, {"sig": sig, "msg": f"history {desc['history']} step {step} ({name}, {tname}, {algo}): {e!r}"})
                        continue
                    nb += 1
                    if not close(got, ref, 1e-9):
                        sig = f"C02:history:regroup:mismatch:{'first' if step == 0 else 'later'}-construction"
                        viol.setdefault(sig, {"sig": sig, "msg": f"the same Op objects used for {desc['history'][1:]}: TTNO number {step + 1} ({name}, {tname} tree, {algo}) differs from its dense reference by rel {rel_err(got, ref):.2e}"})
        return {"nontrivial": nb >= 2, "counters": {"history_constructions": nb}, "outcome": f"history:{'viol' if viol else 'ok'}", "viol": list(viol.values()), "sample": {"desc": desc}}
    parent, groups = HISTORY_TREES[desc["tree"]]
    if desc["history"][0] == "inplace":
        # ONE tree object and ONE term-list object; the list is edited in place between the constructions
        basis = V["sho"]
        edits = RB.inplace_edits()
        for algo in ("Hopcroft-Karp", "qr"):
            # one history per algorithm: the same tree object and the same list object all along
            ham = RB.ops_of(basis)
            tree = TR.build_basis_tree(parent, groups, basis)
            for step, ed in enumerate([None] + list(desc["history"][1:])):
                if ed is not None:
                    edits[ed](ham)
                ref = RB.dense_of_ops(basis, ham)
                try:
                    got = np.asarray(TTNO(tree, ham, algo=algo).todense(list(basis)))
                except Exception as e:
                    sig = f"C02:history:inplace:exception:{type(e).__name__}"
                    viol.setdefault(sig, {"sig": sig, "msg": f"tree {desc['tree']} history {desc['history']} step {step} ({algo}): {e!r}"})
                    continue
                nb += 1
                if not close(got, ref, 1e-9):
                    sig = f"C02:history:inplace:mismatch:{'first' if step == 0 else 'later'}-construction"
                    viol.setdefault(sig, {"sig": sig, "msg": f"tree {desc['tree']}: same tree object, same term list edited in place ({desc['history'][1:step + 1]}): construction {step + 1} ({algo}) differs from the dense sum of the CURRENT list by rel {rel_err(got, ref):.2e}"})
        return {"nontrivial": nb >= 2, "counters": {"history_constructions": nb}, "outcome": f"history:{'viol' if viol else 'ok'}", "viol": list(viol.values()), "sample": {"desc": desc}}
    for step, name in enumerate(desc["history"]):
        basis = V[name]
        ref = RB.dense_of(basis)
        tree = TR.build_basis_tree(parent, groups, basis)
        try:
            got = np.asarray(TTNO(tree, RB.ops_of(basis)).todense(list(basis)))
        except Exception as e:
            sig = f"C02:history:exception:{type(e).__name__}"
            viol.setdefault(sig, {"sig": sig, "msg": f"tree {desc['tree']} history {desc['history']} step {step} ({name}): {e!r}"})
            continue
        nb += 1
        if not close(got, ref, 1e-9):
            sig = f"C02:history:mismatch:{'first' if step == 0 else 'later'}-construction"
            viol.setdefault(sig, {"sig": sig, "msg": f"tree {desc['tree']} history {desc['history']}: operator number {step + 1} ({name}) differs from its dense reference by rel {rel_err(got, ref):.2e}"})
    return {"nontrivial": nb >= 2, "counters": {"history_constructions": nb}, "outcome": f"history:{'viol' if viol else 'ok'}", "viol": list(viol.values()),
            "sample": {"desc": desc}}


def run_case(desc, seed):
    viol = {}
    counters = {}
    if desc["k"] == "C":
        return run_history(desc, seed)
    if desc["k"] == "A":
        kinds = FAMS[desc["fam"]]
        fam1 = family(kinds, 1)
        fam2 = family(kinds, 2)
        parent, groups = desc["parent"], [tuple(g) for g in desc["groups"]]
        nontrivial = False
        mpo_cache = {}
        small = desc.get("small", False)
        for fam, table, factors, algos in table_set(fam1, fam2, small):
            # a fresh tree per construction: the tree object caches identity/dummy operators
            tree = TR.build_basis_tree(parent, groups, fam.basis)
            tag = f"tree parent={parent} groups={groups} fam={desc['fam']}"
            nt = check_ttno(tree, list(fam.basis), fam, table, factors, viol, tag, counters, mpo_cache, algos)
            nontrivial = nontrivial or nt
        # the multiset of basis sets in the tree
        tree = TR.build_basis_tree(parent, groups, fam2.basis)
        phys = [b for b in tree.basis_list if type(b).__name__ != "BasisDummy"]
        if sorted(map(id, phys)) != sorted(map(id, fam2.basis)):
            viol["C02:basis_list"] = {"sig": "C02:basis_list", "msg": f"tree {parent} {groups}: basis_list does not contain every basis set exactly once"}
        return {"nontrivial": nontrivial and len(parent) >= 2, "counters": counters, "rejected": counters.get("rejected", 0),
                "outcome": f"A:{'viol' if viol else 'ok'}", "viol": list(viol.values()), "sample": {"desc": desc}}
    # ---------------- (B) constructors
    from renormalizer.tn import BasisTree
    nb = desc["nb"]
    kinds = tuple(["S", "B2", "E", "S", "B2", "Sq", "S"][:nb])
    fam = family(kinds, 2)
    basis = list(fam.basis)
    try:
        if desc["ctor"] == "linear":
            tree = BasisTree.linear(basis)
        elif desc["ctor"] == "binary":
            tree = BasisTree.binary(basis)
        elif desc["ctor"] == "t3ns":
            tree = BasisTree.t3ns(basis)
        else:
            tree = BasisTree.general_mctdh(basis, desc["order"], contract_primitive=desc["contract"], contract_label=desc.get("label"))
    except AssertionError as e:
        return {"rejected": 1, "outcome": "ctor-refused", "sample": {"desc": desc, "refusal": repr(e)}}
    except Exception as e:
        return {"nontrivial": True, "outcome": "ctor-exception", "viol": [{"sig": f"C02:constructor:{desc['ctor']}:exception:{type(e).__name__}", "msg": f"{desc}: {e!r}"}]}
    phys = [b for b in tree.basis_list if type(b).__name__ != "BasisDummy"]
    if sorted(map(id, phys)) != sorted(map(id, basis)):
        viol["C02:constructor:basis-multiset"] = {"sig": f"C02:constructor:{desc['ctor']}:basis-multiset",
                                                 "msg": f"{desc}: the tree contains {[b.dofs for b in phys]}, input {[b.dofs for b in basis]}"}
    dofs = [d for b in phys for d in b.dofs]
    if sorted(map(repr, tree.dof_list)) != sorted(map(repr, dofs + [d for b in tree.basis_list if type(b).__name__ == 'BasisDummy' for d in b.dofs])):
        viol["C02:constructor:dof_list"] = {"sig": f"C02:constructor:{desc['ctor']}:dof_list", "msg": f"{desc}"}
    n = fam.n
    def row(*pairs):
        r = [0] * n
        for i, v in pairs:
            r[i] = v
        return tuple(r)
    tabs = [((row((0, 1), (n - 1, 1)), row((0, 2), (n - 1, 2))), [1.0, 0.5]),
            (tuple(row((i, 1), ((i + 1) % n, 1)) for i in range(n)), [0.3 + 0.1 * i for i in range(n)]),
            ((row((n // 2, 2)),), [2.5]),
            (tuple(row((i, 2)) for i in range(n)) + (row(),), [1.0] * n + [0.7])]
    nontrivial = False
    mpo_cache = {}
    if not viol:
        for table, factors in tabs:
            nt = check_ttno(tree, basis, fam, table, factors, viol, f"{desc}", counters, mpo_cache)
            nontrivial = nontrivial or nt
    return {"nontrivial": nontrivial, "counters": counters, "outcome": f"B:{desc['ctor']}:{'viol' if viol else 'ok'}", "viol": list(viol.values()),
            "sample": {"desc": desc, "nodes": len(tree.node_list)}}
