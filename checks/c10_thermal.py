"""C10 -- imaginary-time and thermal propagation yield the Gibbs state.   (E1)

(a) every scheme that accepts imaginary time x tau x number of calls x {state, purified density operator} x sectors:
    the normalised result equals exp(-tau H) psi / ||.|| within the scheme's envelope;
(b) ThermalProp from the maximally entangled state (zero- and one-exciton space) with every scheme, beta over two decades:
    energies, electronic and vibrational occupations equal Tr(P e^{-beta H} P O)/Z on the sector;
(c) the closed-form propagator Mpo.exact_propagator for space in {GS, EX}, x real / imaginary, shift in {0, +-0.3},
    site-ordering schemes 1..4, equals the dense matrix exponential of the local vibrational Hamiltonian incl. the shift;
(d) Mps.evolve_exact / MpDm.evolve_exact with offsets {0, 0.3, -1.1}: the represented state after the call is
    exp(-i H_loc t) x the represented state before, whatever the offset (phase bookkeeping); ThermalProp(exact=True);
(e) trees: purified states with auxiliary space (utils_eph.max_entangled_ex) on every plane tree.
"""
import itertools

import numpy as np
import scipy.linalg

from mc import env  # noqa: F401
from mc import trees as TR
from mc.chains import Chain, sectors
from mc.machine import dense_of
from mc.space import plane_trees
from mc.ref.dense import close, rel_err, kron_all, ladder, sector_projector

ID = "C10"
LEVEL = "exploration"
RULE = ("one case = (part, model, scheme / space / offset, parameters); non-trivial = the reference differs from the initial state/operator by > 1e-3; distinct = distinct descriptor")
ASSUMPTIONS = [
    "envelopes as in C09 with x = ||H|| tau for the Taylor/RK expansions (not shift invariant) and x = spectral width x tau for the splitting schemes: Taylor order 4: 5 n x^5/120 + 1e-7; PS/PS2: 0.3 n x^3 + 1e-6; "
    "CMF: 0.3 n x^3 + 2e-3 n; VMF: 1e-2 max(1,x) n + 1e-4",
    "thermal averages: |<O>_mps - <O>_Gibbs| <= tolerance per scheme (P&C 2e-4, TDVP-type 2e-2 of the operator range) after n small steps",
    "local vibrational Hamiltonian of the closed-form propagator: GS space sum omega b^dagger b; EX space sum omega b^dagger b + term10 (b^dagger + b) (the displaced oscillator without constants)",
]
HORIZON_S = 900
HEAVY_CASES = True


def COST(desc):
    if desc["k"] == "gauge-history":
        return 5
    if desc["k"] == "thermalprop" and desc.get("scheme", "").split(":")[0] in ("cmf-midpoint", "vmf", "mu-vmf"):
        return 100      # the stiff mean-field runs from the maximally entangled state take tens of seconds: start them first
    return 10 if desc["k"] in ("thermalprop", "tree-thermal") else 2


def BOUND(tier):
    return {"imag": {"tau": [0.05, 0.2, 0.5], "calls": [1, 2, 4]}, "thermalprop": {"beta": [0.1, 1.0, 10.0], "spaces": ["GS", "EX"]},
            "exact_propagator": {"space": ["GS", "EX"], "x": ["real", "imag"], "shift": [0, 0.3, -0.3], "scheme": [1, 2, 3, 4]},
            "evolve_exact": {"offset": [0, 0.3, -1.1]}, "trees": "plane trees <= 3 nodes"}


def schemes():
    from checks.c09_evolve import schemes as s9
    S = s9()
    keep = ["pc-taylor", "pc-rk4", "ps:krylov", "ps:RK45", "ps2:krylov", "ps2:RK45", "cmf-midpoint:RK45", "cmf-midpoint:krylov", "cmf-trapz:RK45", "cmf-first-order:RK45",
            "vmf", "mu-vmf", "mu-vmf:force_ovlp", "pc-taylor-adaptive", "ps:krylov:adaptive", "pc-rk:C_RK4", "pc-rk:RKF45:adaptive"]
    out = {}
    for k in keep:
        spec, order, fam_ = S[k]
        spec = dict(spec)
        if "guess_dt" in spec:
            spec["guess_dt"] = -1j * abs(spec["guess_dt"])
        out[k] = (spec, order, fam_)
    return out


def holstein(nmol=2, nph=1, scheme=2, nlev=3, variant=0, nonsimple=False):
    from renormalizer.model import HolsteinModel, Mol, Phonon
    from renormalizer.utils import Quantity
    if nonsimple:
        # modes whose frequency changes upon excitation (ground / excited frequency differ)
        mols = []
        for i in range(nmol):
            phs = [Phonon([Quantity([0.7, 1.1][k]), Quantity([1.0, 0.8][k])], [Quantity(0), Quantity([0.9, -0.5][k])], nlev) for k in range(nph)]
            mols.append(Mol(Quantity(0.3 + 0.2 * i), phs))
        return HolsteinModel(mols, Quantity(0.4), scheme=scheme)
    oms = [0.7, 1.1][:nph]
    ds = [0.9, -0.5][:nph] if variant == 0 else [0.4, 0.8][:nph]
    mols = []
    for i in range(nmol):
        phs = [Phonon.simple_phonon(Quantity(oms[k]), Quantity(ds[k]), nlev) for k in range(nph)]
        mols.append(Mol(Quantity(0.3 + 0.2 * i if variant == 0 else 1.1 - 0.7 * i), phs))
    return HolsteinModel(mols, Quantity(0.4 if variant == 0 else 0.15), scheme=scheme)


def cases(tier, seed):
    S = schemes()
    for fam, n, secs in (("elec", 3, [[1], [2]]), ("eph", 4, [[0], [1]])):
        for sec in secs:
            for form in ("mps", "mpdm"):
                for sname in S:
                    yield {"k": "imag", "fam": fam, "n": n, "sector": sec, "form": form, "scheme": sname}
            # histories that leave right-canonical FLAGS on tensors that are not right-canonical (sweep, then sum / operator application)
            for form in ("mps:sum-after-canonicalise", "mps:apply-after-canonicalise"):
                for sname in S:
                    if sname.split(":")[0] in ("ps", "ps2", "pc-taylor", "pc-rk4"):
                        yield {"k": "imag", "fam": fam, "n": n, "sector": sec, "form": form, "scheme": sname}
    for sname in ("ps:krylov", "ps2:krylov", "ps:RK45"):
        yield {"k": "gauge-history", "scheme": sname}
    for space in ("GS", "EX"):
        for sname in ("pc-taylor", "pc-rk4", "ps:krylov", "ps2:krylov", "cmf-midpoint:RK45", "mu-vmf", "vmf"):
            for beta in (0.1, 1.0, 10.0):
                if tier == "quick" and beta == 10.0 and sname in ("vmf", "mu-vmf", "cmf-midpoint:RK45") and space == "EX":
                    continue      # a minute each (stiff regularised equations at low temperature): thorough tier only
                yield {"k": "thermalprop", "space": space, "scheme": sname, "beta": beta}
        # the Hamiltonian to thermalise with is handed over separately (h_mpo_model) and differs from the model the initial
        # maximally entangled state was built for (same basis, other site energies / hopping)
        for sname in ("pc-taylor", "ps:krylov", "ps2:krylov"):
            yield {"k": "thermalprop", "space": space, "scheme": sname, "beta": 1.0, "other_model": True}
        yield {"k": "thermalprop-exact", "space": space, "beta": 1.0, "other_model": True}
        for beta in (0.1, 1.0, 10.0):
            yield {"k": "thermalprop-exact", "space": space, "beta": beta}
        for init in ("excited-vacuum", "random"):
            for beta in (0.2, 2.0):
                for nsteps in (1, 3):
                    yield {"k": "thermalprop-exact-init", "space": space, "beta": beta, "init": init, "nsteps": nsteps}
    for scheme in (1, 2, 3, 4):
        for nmol, nph in ((1, 1), (2, 1), (2, 2), (3, 1)):
            for space in ("GS", "EX"):
                for xk in ("real", "imag", "negreal"):
                    for shift in (0.0, 0.3, -0.3):
                        yield {"k": "exact_propagator", "scheme": scheme, "nmol": nmol, "nph": nph, "space": space, "x": xk, "shift": shift}
                        if (nmol, nph) in ((1, 1), (2, 2)) and shift != -0.3:
                            yield {"k": "exact_propagator", "scheme": scheme, "nmol": nmol, "nph": nph, "space": space, "x": xk, "shift": shift, "nonsimple": True}
    for scheme in (2, 4):
        for space in ("GS", "EX"):
            for off in (0.0, 0.3, -1.1):
                for form in ("mps", "mpdm"):
                    yield {"k": "evolve_exact", "scheme": scheme, "space": space, "offset": off, "form": form}
    for N in (2, 3):
        for parent in plane_trees(N):
            for sname in ("pc", "ps2"):
                for beta in (0.2, 2.0):
                    yield {"k": "tree-thermal", "parent": parent, "scheme": sname, "beta": beta}


def add(viol, sig, msg):
    if sig not in viol:
        viol[sig] = {"sig": sig, "msg": msg}


def envelope(sname, order, fam_, x, ncalls):
    import math
    floor = 2e-3 * ncalls if sname.startswith("cmf") else 1e-6
    if fam_ == "taylor":
        return 5 * ncalls * x ** (order + 1) / math.factorial(order + 1) + 1e-7
    if fam_ == "split":
        return 0.3 * ncalls * x ** 3 + floor
    if fam_ == "first":
        return 1.0 * ncalls * x ** 2 + floor
    if fam_ == "vmf":
        return 1e-2 * max(1.0, x) * ncalls + 1e-4
    return 2e-3 * max(1.0, x) * ncalls + 1e-5


def run_imag(desc, seed):
    from renormalizer.mps import MpDm
    from renormalizer.utils import CompressConfig, CompressCriteria
    from checks.c09_evolve import make_config, classify_exception, refusal
    from mc.budget import rhs_budget, BudgetExceeded
    ch = Chain(desc["fam"], desc["n"], seed)
    sec = desc["sector"]
    S = schemes()
    spec, order, fam_ = S[desc["scheme"]]
    H = ch.mpo_neutral()
    Hd = np.asarray(H.todense())
    viol = {}
    tag = f"[{desc['fam']} n={desc['n']} sector={sec} {desc['form']} scheme={desc['scheme']}]"

    def init():
        s = ch.random_mps(sec, 8, "c10", cplx=False)
        if desc["form"].startswith("mps:"):
            s.canonicalise()
            if desc["form"].endswith("sum-after-canonicalise"):
                b = ch.random_mps(sec, 8, "c10b", cplx=False)
                b.canonicalise()
                s = s.add(b)
            else:
                s = H.apply(s)
            s.normalize("mps_only")
            s.coeff = 1
            s.evolve_config = make_config(spec)
            s.compress_config = CompressConfig(CompressCriteria.fixed, max_bonddim=64)
            return s
        if desc["form"] == "mpdm":
            def dm(t):
                return MpDm.from_mps(ch.random_mps(sec, 8, t))
            s = H.apply(dm("c10a")).add(H.apply(H.apply(dm("c10b")))).add(dm("c10c")).add(H.apply(dm("c10d")).apply(H))
        s.canonicalise()
        s.canonicalise()
        s.normalize("mps_only")
        s.evolve_config = make_config(spec)
        s.compress_config = CompressConfig(CompressCriteria.fixed, max_bonddim=64)
        return s
    if desc["form"] == "mpdm" and desc["scheme"].split(":")[0] in ("cmf-midpoint", "cmf-first-order", "cmf-trapz", "vmf", "mu-vmf"):
        return {"skipped": 1, "outcome": "ill-conditioned-combination"}
    try:
        psi0 = init()
    except Exception as e:
        return {"skipped": 1, "outcome": f"init-failed:{type(e).__name__}"}
    v0 = dense_of(psi0)
    if np.linalg.norm(v0) < 1e-12:
        return {"skipped": 1, "outcome": "zero"}
    mask = sector_projector(ch.sigmaqn(), sec)
    w = np.linalg.eigvalsh(((Hd + Hd.conj().T) / 2)[np.ix_(mask, mask)])
    width = w.max() - w.min()
    nrun = 0
    moved = False
    stiff = 0
    for tau in (0.05, 0.2, 0.5):
        for ncalls in (1, 2, 4):
            cur = psi0
            snap = dense_of(psi0)
            try:
                with rhs_budget(40000):
                    for _ in range(ncalls):
                        cur = cur.evolve(H, -1j * tau / ncalls)
                        nrun += 1
            except BudgetExceeded:
                if fam_ == "vmf" or desc["scheme"].startswith("cmf"):
                    stiff += 1
                    continue
                add(viol, f"C10:horizon:{desc['scheme']}", f"{tag} tau={tau}")
                continue
            except Exception as e:
                if refusal(e):
                    return {"rejected": 1, "outcome": "refused"}
                add(viol, f"C10:imag:exception:{classify_exception(e)}:{desc['scheme'].split(':')[0]}", f"{tag} tau={tau} calls={ncalls}: {e!r}")
                break
            phi = dense_of(cur)
            E = scipy.linalg.expm(-tau * Hd)
            ref = E @ v0
            ref = ref / np.linalg.norm(ref)
            nphi = np.linalg.norm(phi)
            if abs(nphi - 1) > 1e-7:
                add(viol, f"C10:imag:not-normalised:{desc['scheme'].split(':')[0]}", f"{tag} tau={tau}: norm of the result (tensors x coeff) is {nphi}")
            err = np.linalg.norm(phi / max(nphi, 1e-300) - ref)
            if np.linalg.norm(ref - v0 / np.linalg.norm(v0)) > 1e-3:
                moved = True
            # a Taylor / Runge-Kutta expansion of exp(-tau H) is not shift invariant: its error scales with ||H|| tau, the splitting
            # schemes with the spectral width
            scale = np.abs(w).max() if fam_ in ("taylor", "adaptive") else width
            lim = envelope(desc["scheme"], order, fam_, scale * tau / ncalls, ncalls)
            if scale * tau / ncalls > 0.8 and fam_ in ("taylor", "split", "first"):
                continue
            if not np.isfinite(err) or err > lim:
                add(viol, f"C10:imag:propagator:{desc['scheme']}:{desc['form']}", f"{tag} tau={tau} in {ncalls} calls: error {err:.3e} exceeds {lim:.3e} (spectral width {width:.2f}); bond dims {cur.bond_dims}")
            if not close(dense_of(psi0), snap, 1e-9):
                add(viol, f"C10:imag:input-changed:{desc['scheme'].split(':')[0]}", f"{tag}")
    return {"nontrivial": moved, "counters": {"evolve_calls": nrun, "stiff_mean_field_runs_over_budget": stiff}, "outcome": f"imag:{'viol' if viol else 'ok'}", "viol": list(viol.values()),
            "sample": {"desc": desc}}


def gibbs(Hd, mask, beta, ops):
    Hs = ((Hd + Hd.conj().T) / 2)[np.ix_(mask, mask)]
    w, v = np.linalg.eigh(Hs)
    p = np.exp(-beta * (w - w.min()))
    p = p / p.sum()
    rho = (v * p) @ v.conj().T
    return [float(np.real(np.trace(rho @ O[np.ix_(mask, mask)]))) for O in ops]


def holstein_dense_ops(model):
    from renormalizer.mps import Mpo
    from renormalizer.model import Op
    Hd = np.asarray(Mpo(model).todense())
    eops = [np.asarray(Mpo(model, Op(r"a^\dagger a", d)).todense()) for d in model.e_dofs]
    pops = [np.asarray(Mpo(model, Op("n", d)).todense()) for d in model.v_dofs]
    return Hd, eops, pops


def run_thermalprop(desc, seed, exact=False):
    from renormalizer.mps import MpDm
    from renormalizer.mps.thermalprop import ThermalProp
    from renormalizer.utils import CompressConfig, CompressCriteria
    from checks.c09_evolve import make_config, classify_exception
    from mc.budget import rhs_budget, BudgetExceeded
    model = holstein(2, 1, 2, 3)
    init_model = holstein(2, 1, 2, 3, variant=1) if desc.get("other_model") else model
    space, beta = desc["space"], desc["beta"]
    viol = {}
    tag = f"[thermal {space} beta={beta} {'exact' if exact else desc['scheme']}{' h_mpo_model given' if desc.get('other_model') else ''}]"
    Hd, eops, pops = holstein_dense_ops(model)
    sig = [np.asarray(b.sigmaqn) for b in model.basis]
    mask = sector_projector(sig, [0 if space == "GS" else 1])
    nsteps = {0.1: 2, 1.0: 10, 10.0: 30}[beta]
    if exact:
        # exact=True propagates with the local vibrational Hamiltonian only: the Gibbs state of H_loc
        dims = [b.nbas for b in model.basis]
        Hloc = np.zeros_like(Hd)
        from renormalizer.utils.elementop import construct_ph_op_dict
        for i, b in enumerate(model.basis):
            if b.is_phonon:
                ph = model.mol_list[0].ph_list[0]
                ops = construct_ph_op_dict(b.nbas)
                h = ops[r"b^\dagger b"] * ph.omega[0]
                if space == "EX":
                    h = h + ops[r"b^\dagger + b"] * ph.term10
                mats = [np.eye(d) for d in dims]
                mats[i] = h
                Hloc = Hloc + kron_all(mats)
        Href = Hloc
    else:
        Href = Hd
    try:
        init = MpDm.max_entangled_gs(init_model) if space == "GS" else MpDm.max_entangled_ex(init_model)
        init.compress_config = CompressConfig(CompressCriteria.fixed, max_bonddim=32)
        cfg = None if exact else make_config(schemes()[desc["scheme"]][0])
        with rhs_budget(400000):
            # zero-exciton space: the maximally entangled state is a product state and H has no coupling there; the automatic bond
            # expansion of ThermalProp only supports the one-exciton space (explicit assert), so it is switched off for GS
            tp = ThermalProp(init, h_mpo_model=(model if desc.get("other_model") else None), exact=exact, space=space, evolve_config=cfg,
                             auto_expand=(space == "EX"))
            tp.evolve(nsteps=nsteps, evolve_time=beta / 2j)
    except BudgetExceeded:
        return {"skipped": 1, "outcome": "stiff"}
    except Exception as e:
        add(viol, f"C10:thermalprop:exception:{classify_exception(e)}:{'exact' if exact else desc['scheme'].split(':')[0]}", f"{tag}: {e!r}")
        return {"nontrivial": True, "viol": list(viol.values()), "outcome": "tp-exception"}
    mp = tp.latest_mps
    # observables from the library
    e = mp.expectation(tp.h_mpo) / mp.conj().dot(mp).real if False else tp.energies[-1]
    eo = np.asarray(mp.e_occupations)
    po = np.asarray(mp.ph_occupations)
    ref_e, = gibbs(Href, mask, beta, [Hd if not exact else Hd])
    ref_eo = gibbs(Href, mask, beta, eops)
    ref_po = gibbs(Href, mask, beta, pops)
    tol = 2e-4 if (exact or desc["scheme"].startswith("pc")) else 2e-2
    scale = max(1.0, np.abs(np.linalg.eigvalsh((Hd + Hd.conj().T) / 2)).max())
    if abs(e - ref_e) > tol * scale:
        add(viol, f"C10:thermalprop:energy:{'exact' if exact else desc['scheme']}:{space}", f"{tag}: <H> = {e}, canonical average on the sector {ref_e}")
    if np.abs(eo - np.array(ref_eo)).max() > tol:
        add(viol, f"C10:thermalprop:e_occupations:{'exact' if exact else desc['scheme']}:{space}", f"{tag}: {eo} vs {ref_eo}")
    if np.abs(po - np.array(ref_po)).max() > tol * 3:
        add(viol, f"C10:thermalprop:ph_occupations:{'exact' if exact else desc['scheme']}:{space}", f"{tag}: {po} vs {ref_po}")
    return {"nontrivial": True, "outcome": f"tp:{'viol' if viol else 'ok'}", "viol": list(viol.values()),
            "sample": {"desc": desc, "energy": float(np.real(e)), "gibbs_energy": ref_e}}


def run_thermalprop_exact_init(desc, seed):
    """exact (closed-form) thermal propagation from a density operator that is NOT the identity: rho -> e^{-tau H_loc} rho / norm"""
    from renormalizer.mps import MpDm, Mps, Mpo
    from renormalizer.mps.thermalprop import ThermalProp
    from renormalizer.utils.elementop import construct_ph_op_dict
    model = holstein(2, 1, 2, 3)
    space, beta = desc["space"], desc["beta"]
    viol = {}
    if desc["init"] == "excited-vacuum":
        init = MpDm.from_mps(Mpo.onsite(model, r"a^\dagger") @ Mps.ground_state(model, False))
    else:
        env.reseed(seed, ("c10tpi", space))
        init = Mpo(model).apply(MpDm.from_mps(Mps.random(model, 1, 6, percent=1.0)))
    init.normalize("mps_and_coeff")
    before = dense_of(init)
    try:
        tp = ThermalProp(init, exact=True, space=space)
        tp.evolve(nsteps=desc["nsteps"], evolve_time=beta / 2j)
    except Exception as e:
        return {"nontrivial": True, "outcome": "exc", "viol": [{"sig": f"C10:thermalprop-exact-init:exception:{type(e).__name__}", "msg": f"{desc}: {e!r}"}]}
    got = dense_of(tp.latest_mps)
    mats = []
    for b in model.basis:
        if b.is_phonon:
            imol, k = b.dof
            ph = model.mol_list[imol].ph_list[k]
            ops = construct_ph_op_dict(b.nbas)
            hh = ops[r"b^\dagger b"] * ph.omega[0]
            if space == "EX":
                hh = hh + ops[r"b^\dagger + b"] * ph.term10
            mats.append(scipy.linalg.expm(-beta / 2 * hh))
        else:
            mats.append(np.eye(b.nbas))
    ref = kron_all(mats) @ before
    ref = ref / np.linalg.norm(ref)
    g = got / np.linalg.norm(got)
    if not close(g, ref, 1e-8):
        wrong_side = before @ kron_all(mats)
        wrong_side = wrong_side / np.linalg.norm(wrong_side)
        hint = " (equals rho e^{-tau H}: propagator applied on the ancilla side)" if close(g, wrong_side, 1e-8) else ""
        add(viol, f"C10:thermalprop-exact-init:{space}", f"{desc}: normalised result differs from e^(-beta/2 H_loc) rho by rel {rel_err(g, ref):.2e}{hint}")
    if abs(np.linalg.norm(got) - 1) > 1e-8:
        add(viol, "C10:thermalprop-exact-init:norm", f"{desc}: norm {np.linalg.norm(got)}")
    return {"nontrivial": True, "outcome": f"tpi:{'viol' if viol else 'ok'}", "viol": list(viol.values()), "sample": {"desc": desc}}


def run_exact_propagator(desc):
    from renormalizer.mps import Mpo
    from renormalizer.utils.elementop import construct_ph_op_dict
    model = holstein(desc["nmol"], desc["nph"], desc["scheme"], 3, nonsimple=desc.get("nonsimple", False))
    x = {"real": 0.37, "negreal": -0.8, "imag": -0.6j}[desc["x"]]
    shift = desc["shift"]
    viol = {}
    try:
        P = Mpo.exact_propagator(model, x, space=desc["space"], shift=shift)
        got = np.asarray(P.todense())
    except Exception as e:
        return {"nontrivial": True, "outcome": "exc", "viol": [{"sig": f"C10:exact_propagator:exception:{type(e).__name__}", "msg": f"{desc}: {e!r}"}]}
    dims = [b.nbas for b in model.basis]
    mats = []
    iph = 0
    for b in model.basis:
        if b.is_phonon:
            imol, k = b.dof
            ph = model.mol_list[imol].ph_list[k]
            ops = construct_ph_op_dict(b.nbas)
            h = ops[r"b^\dagger b"] * ph.omega[0]
            if desc["space"] == "EX":
                # excited-state surface in the ground-state oscillator basis: -w_e^2 d x + 1/2 (w_e^2 - w_g^2) x^2, x = (b^+ + b)/sqrt(2 w_g)
                h = h + ops[r"b^\dagger + b"] * (-ph.omega[1] ** 2 * ph.dis[1] / np.sqrt(2 * ph.omega[0]))
                h = h + ops[r"(b^\dagger + b)^2"] * ((ph.omega[1] ** 2 - ph.omega[0] ** 2) / (4 * ph.omega[0]))
            mats.append(scipy.linalg.expm(x * h))
        else:
            mats.append(np.eye(b.nbas))
    ref = kron_all(mats) * np.exp(shift * x)
    if got.shape != ref.shape or not close(got, ref, 1e-10):
        add(viol, f"C10:exact_propagator:{desc['space']}:scheme{desc['scheme']}" + (":frequency-changing-modes" if desc.get("nonsimple") else ""), f"{desc}: differs from expm(x (H_loc + shift)) by rel {rel_err(got, ref):.2e}")
    if max(P.bond_dims) != 1:
        add(viol, "C10:exact_propagator:bond-dim", f"{desc}: bond dims {P.bond_dims}")
    return {"nontrivial": True, "outcome": "ep", "viol": list(viol.values()), "sample": {"desc": desc}}


def run_evolve_exact(desc, seed):
    from renormalizer.mps import Mps, Mpo, MpDm
    from renormalizer.utils import Quantity
    from renormalizer.utils.elementop import construct_ph_op_dict
    model = holstein(2, 1, desc["scheme"], 3)
    viol = {}
    env.reseed(seed, ("c10ee", desc["scheme"]))
    s = Mps.random(model, 1, 6, percent=1.0)
    s = s.scale(0.8 + 0.6j)
    s.coeff = 0.5 - 0.5j
    if desc["form"] == "mpdm":
        s = Mpo(model).apply(MpDm.from_mps(s))
    h = Mpo(model, offset=Quantity(desc["offset"]))
    before = dense_of(s)
    t = 0.7
    try:
        out = s.evolve_exact(h, t, desc["space"])
    except Exception as e:
        return {"nontrivial": True, "outcome": "exc", "viol": [{"sig": f"C10:evolve_exact:exception:{type(e).__name__}:{desc['form']}", "msg": f"{desc}: {e!r}"}]}
    mats = []
    for b in model.basis:
        if b.is_phonon:
            imol, k = b.dof
            ph = model.mol_list[imol].ph_list[k]
            ops = construct_ph_op_dict(b.nbas)
            hh = ops[r"b^\dagger b"] * ph.omega[0]
            if desc["space"] == "EX":
                hh = hh + ops[r"b^\dagger + b"] * ph.term10
            mats.append(scipy.linalg.expm(-1j * t * hh))
        else:
            mats.append(np.eye(b.nbas))
    U = kron_all(mats)
    # a state is multiplied from the left; a density operator in the library's convention is multiplied from the right
    ref = U @ before if desc["form"] == "mps" else before @ U
    got = dense_of(out)
    if not close(got, ref, 1e-10):
        alt = before @ U if desc["form"] == "mps" else U @ before
        phase = np.vdot(ref.ravel(), got.ravel()) / max(np.vdot(ref.ravel(), ref.ravel()).real, 1e-300)
        add(viol, f"C10:evolve_exact:{desc['form']}:{'offset' if desc['offset'] else 'no-offset'}",
            f"{desc}: result differs from exp(-i H_loc t) x input by rel {rel_err(got, ref):.2e} (overlap phase factor {phase:.4f})")
    if not close(dense_of(s), before, 1e-12):
        add(viol, f"C10:evolve_exact:input-changed:{desc['form']}", f"{desc}: the input changed by rel {rel_err(dense_of(s), before):.2e}")
    return {"nontrivial": True, "outcome": "ee", "viol": list(viol.values()), "sample": {"desc": desc}}


def run_tree_thermal(desc, seed):
    from renormalizer.tn import TTNO
    from renormalizer.tn import utils_eph
    from renormalizer.model import basis as ba
    from mc.chains import basis_list, neutral_terms
    from checks.c12_tree_evolve import configure
    parent = desc["parent"]
    N = len(parent)
    basis = basis_list("eph", N)
    groups = [(i,) for i in range(N)]
    tree = TR.build_basis_tree(parent, groups, basis)
    tree2 = tree.add_auxiliary_space()
    rs = env.rng(seed, ("c10tree", N))
    terms = neutral_terms("eph", N, rs)
    H = TTNO(tree, terms)
    viol = {}
    try:
        s = utils_eph.max_entangled_ex(tree2)
    except AssertionError:
        return {"rejected": 1, "outcome": "refused"}
    Hd = np.asarray(H.todense(list(basis)))
    mask = sector_projector([np.asarray(b.sigmaqn) for b in basis], [1])
    beta = desc["beta"]
    nst = 4 if beta < 1 else 12
    cur = s
    try:
        for k in range(nst):
            configure(cur, desc["scheme"])
            cur = cur.evolve(H, -1j * beta / 2 / nst)
    except Exception as e:
        import sys
        import traceback
        tb = traceback.extract_tb(sys.exc_info()[2])
        lib = [f.name for f in tb if "/renormalizer/" in f.filename]
        add(viol, f"C10:tree-thermal:exception:{type(e).__name__}:{lib[-1] if lib else '?'}:{desc['scheme']}", f"{desc}: {e!r}")
        return {"nontrivial": True, "viol": list(viol.values()), "outcome": "tree-exc"}
    e = cur.expectation(H)
    ref, = gibbs(Hd, mask, beta, [Hd])
    tol = 5e-4 if desc["scheme"] == "pc" else 2e-2
    if abs(e - ref) > tol * max(1.0, abs(ref)):
        add(viol, f"C10:tree-thermal:energy:{desc['scheme']}", f"{desc}: <H> = {e} vs canonical average {ref}")
    return {"nontrivial": True, "outcome": f"tree:{'viol' if viol else 'ok'}", "viol": list(viol.values()), "sample": {"desc": desc, "energy": float(np.real(e)), "gibbs": ref}}


def run_gauge_history(desc, seed):
    """imaginary-time projector splitting on a state whose flags say right-canonical while its tensors are not (see checks/c09_evolve.py)"""
    from checks.c09_evolve import gauge_history_block
    viol = {}
    spec = schemes()[desc["scheme"]][0]
    n = gauge_history_block(desc, seed, spec, viol, f"[imaginary time {desc['scheme']}]", times=("imag",), sigprefix="C10")
    return {"nontrivial": n > 0, "counters": {"evolve_calls": n}, "outcome": f"gauge-history:{'viol' if viol else 'ok'}", "viol": list(viol.values()), "sample": {"desc": desc}}


def run_case(desc, seed):
    k = desc["k"]
    if k == "gauge-history":
        return run_gauge_history(desc, seed)
    if k == "imag":
        return run_imag(desc, seed)
    if k == "thermalprop":
        return run_thermalprop(desc, seed)
    if k == "thermalprop-exact":
        return run_thermalprop(desc, seed, exact=True)
    if k == "thermalprop-exact-init":
        return run_thermalprop_exact_init(desc, seed)
    if k == "exact_propagator":
        return run_exact_propagator(desc)
    if k == "evolve_exact":
        return run_evolve_exact(desc, seed)
    return run_tree_thermal(desc, seed)
