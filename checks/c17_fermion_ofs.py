"""C17 -- fermionic Hamiltonians and site reordering keep the physics unchanged.   (E1 + E2)

(a) qc_model: symmetric integrals for 1..3 spatial orbitals -- EVERY sparsity mask of the one-electron matrix for <= 2 orbitals,
    seeded 8-fold symmetric two-electron integrals with vanishing blocks; stacked on/off; conserve_qn on/off.  Oracle: fermionic
    matrices built here from anticommuting operators (CAR verified inside the oracle) in the same orbital order, both from the
    spin-orbital integrals handed to qc_model and directly from the spatial integrals; Hermiticity; [H,N_alpha]=[H,N_beta]=0.
(b) swaps: every sequence of <= L adjacent swaps through Mpo.try_swap_site with swap_jw in {False, True}.  With P the exchange of
    the two tensor factors and F = diag(1,1,1,-1) on them:  swap_jw=False must give P D P^T;  swap_jw=True must give the
    Jordan-Wigner image of the same fermionic operator in the new orbital order, F P D P^T F (the sign the state update applies).
(c) optimiser and TDVP-PS2 runs with every on-the-fly-swapping criterion on spin, vibronic and ab-initio models: energies equal
    the exact ones, the returned state permuted back equals the reference state up to a phase, the Hamiltonian operator after the
    run equals the original one up to the site permutation recorded in mps.model.
"""
import itertools

import numpy as np
import scipy.linalg

from mc import env  # noqa: F401
from mc.machine import dense_of
from mc.ref.dense import close, rel_err, kron_all, perm_matrix, sector_projector

ID = "C17"
LEVEL = "exploration"
RULE = ("(a) one case = (number of spatial orbitals, sparsity mask of h, eri variant, stacked, conserve_qn); (b) one case = (model, swap_jw, algo) running every swap sequence up to the length bound; "
        "(c) one case = (model, driver, OFS criterion); non-trivial = Hamiltonian with at least one two-site term (and, for (c), at least one swap actually performed or the debug criterion); "
        "distinct = distinct descriptor")
ASSUMPTIONS = [
    "fermionic reference: a_j = Z...Z sigma^+_j with sigma^+ = |0><1| (occupied = basis state 1), canonical anticommutation relations asserted for every orbital count",
    "two-electron integrals: chemists' notation (pq|rs) with 8-fold symmetry, H = sum h_pq a+_ps a_qs + 1/2 sum (pq|rs) a+_ps a+_rt a_st a_qs",
    "relative tolerance 1e-9 for operators, 1e-6 for optimised energies / states",
]
HORIZON_S = 900
HEAVY_CASES = True


def COST(desc):
    return 10 if desc["k"] == "ofs" else (3 if desc["k"] == "swap" else 1)


def BOUND(tier):
    return {"orbitals": "1..3 spatial (2..6 spin orbitals)", "h_masks": "all for <= 2 orbitals, 6 for 3", "swap_sequences": "length <= 2" if tier == "quick" else "length <= 3",
            "ofs": ["OFS-D", "OFS-S", "OFS-D/S", "OFS-Debug"], "drivers": ["optimize_mps 2site", "TDVP-PS2"]}


# ------------------------------------------------------------------------------------------------ fermionic oracle

def jw_ops(n):
    Z = np.diag([1.0, -1.0])
    sp = np.array([[0.0, 1.0], [0.0, 0.0]])
    I = np.eye(2)
    a = []
    for j in range(n):
        a.append(kron_all([Z] * j + [sp] + [I] * (n - j - 1)))
    # canonical anticommutation relations
    for i in range(n):
        for j in range(n):
            assert np.allclose(a[i] @ a[j] + a[j] @ a[i], 0)
            assert np.allclose(a[i] @ a[j].T + a[j].T @ a[i], np.eye(2 ** n) * (i == j))
    return a


def integrals(norb, mask_bits, eri_variant, seed):
    rs = env.rng(seed, ("c17int", norb, eri_variant))
    h = rs.uniform(-1, 1, (norb, norb))
    h = (h + h.T) / 2
    # sparsity mask over the upper triangle (incl. diagonal)
    iu = [(i, j) for i in range(norb) for j in range(i, norb)]
    for k, (i, j) in enumerate(iu):
        if not (mask_bits >> k) & 1:
            h[i, j] = h[j, i] = 0.0
    # 8-fold symmetric eri
    eri = np.zeros((norb,) * 4)
    for p, q, r, s in itertools.product(range(norb), repeat=4):
        key = tuple(sorted([tuple(sorted((p, q))), tuple(sorted((r, s)))]))
        v = np.random.RandomState(abs(hash((key, seed, eri_variant))) % (2 ** 31)).uniform(-0.5, 0.5)
        eri[p, q, r, s] = v
    if eri_variant == "zero":
        eri[:] = 0
    elif eri_variant == "diagonal-only":
        keep = np.zeros_like(eri)
        for p in range(norb):
            for r in range(norb):
                keep[p, p, r, r] = eri[p, p, r, r]
        eri = keep
    elif eri_variant == "vanishing-block":
        for p, q, r, s in itertools.product(range(norb), repeat=4):
            if len({p, q, r, s}) >= 3:
                eri[p, q, r, s] = 0
    assert np.allclose(eri, eri.transpose(1, 0, 2, 3)) and np.allclose(eri, eri.transpose(2, 3, 0, 1))
    return h, eri


def fermionic_reference(h, eri):
    norb = len(h)
    a = jw_ops(2 * norb)
    D = 2 ** (2 * norb)
    H = np.zeros((D, D))
    for p in range(norb):
        for q in range(norb):
            for s in (0, 1):
                H += h[p, q] * a[2 * p + s].T @ a[2 * q + s]
    for p, q, r, s in itertools.product(range(norb), repeat=4):
        if eri[p, q, r, s] == 0:
            continue
        for s1 in (0, 1):
            for s2 in (0, 1):
                H += 0.5 * eri[p, q, r, s] * a[2 * p + s1].T @ a[2 * r + s2].T @ a[2 * s + s2] @ a[2 * q + s1]
    return H, a


def cases(tier, seed):
    quick = tier == "quick"
    for norb in (1, 2, 3):
        ntri = norb * (norb + 1) // 2
        masks = range(1 << ntri) if norb <= 2 else [0b111111, 0b100101, 0b010010, 0b111000, 0b000111, 0b101101]
        for mask in masks:
            for ev in ("generic", "zero", "diagonal-only", "vanishing-block"):
                if mask == 0 and ev == "zero":
                    continue
                for stacked in (False, True):
                    for cq in (True, False):
                        if quick and norb == 3 and (stacked or not cq) and ev != "generic":
                            continue
                        yield {"k": "qc", "norb": norb, "mask": mask, "eri": ev, "stacked": stacked, "conserve_qn": cq}
    # histories on one operator object: plain exchanges and Jordan-Wigner exchanges mixed within one sequence
    for model in ("qc2", "spin-long"):
        yield {"k": "swap", "model": model, "swap_jw": "mixed", "algo": "Hopcroft-Karp", "L": 2 if quick else 3}
    for model in ("qc2", "qc2-noqn", "qc1-U", "single-term", "spin4", "spin-long", "eph4"):
        for jw in (False, True):
            for algo in ("Hopcroft-Karp", "qr"):
                if jw and not model.startswith(("qc", "spin-long")):
                    continue
                yield {"k": "swap", "model": model, "swap_jw": jw, "algo": algo, "L": 2 if quick else 3}
    # three spatial orbitals (six sites, many more bond operators): longer swap histories on a larger operator
    for jw in (False, True):
        for algo in ("Hopcroft-Karp", "qr"):
            # (quick: all histories of length <= 2 plus three of length 3 -- swap, swap back, swap the neighbouring pair)
            yield {"k": "swap", "model": "qc3", "swap_jw": jw, "algo": algo, "L": 2 if quick else 3, "extra": [[1, 1, 0], [2, 2, 1], [3, 2, 2], [0, 0, 1]]}
    for model in ("spin5", "vibronic", "qc2", "qc2-noqn"):
        for driver in ("gs", "ps2"):
            for ofs in ("ofs_d", "ofs_s", "ofs_ds", "ofs_debug"):
                yield {"k": "ofs", "model": model, "driver": driver, "ofs": ofs}
                if driver == "gs":
                    yield {"k": "ofs", "model": model, "driver": driver, "ofs": ofs, "schedule": "short"}


def add(viol, sig, msg):
    if sig not in viol:
        viol[sig] = {"sig": sig, "msg": msg}


def run_qc(desc, seed):
    from renormalizer.model import Model, h_qc
    from renormalizer.mps import Mpo
    norb = desc["norb"]
    h, eri = integrals(norb, desc["mask"], desc["eri"], seed)
    sh, aseri = h_qc.int_to_h(h, eri)
    viol = {}
    tag = f"{desc}"
    if not np.any(sh) and not np.any(aseri):
        return {"skipped": 1, "outcome": "zero-hamiltonian"}
    try:
        basis, terms = h_qc.qc_model(sh, aseri, stacked=desc["stacked"], conserve_qn=desc["conserve_qn"])
        if desc["stacked"]:
            mpos = [Mpo(Model(basis, t)) for t in terms]
            dense = sum(np.asarray(m.todense()) for m in mpos)
            mpo = mpos[0]
        else:
            model = Model(basis, terms)
            mpo = Mpo(model)
            dense = np.asarray(mpo.todense())
    except Exception as e:
        import sys
        import traceback
        tb = traceback.extract_tb(sys.exc_info()[2])
        lib = [f.name for f in tb if "/renormalizer/" in f.filename]
        add(viol, f"C17:qc_model:exception:{type(e).__name__}:{lib[-1] if lib else '?'}", f"{tag}: {e!r}")
        return {"nontrivial": True, "viol": list(viol.values()), "outcome": "qc-exc"}
    ref, a = fermionic_reference(h, eri)
    n = 2 * norb
    # reference from the spin-orbital integrals that were handed to qc_model
    ref2 = np.zeros_like(ref)
    for p in range(n):
        for q in range(n):
            if sh[p, q]:
                ref2 += sh[p, q] * a[p].T @ a[q]
    for p, q, r, s in zip(*np.nonzero(aseri)):
        ref2 += aseri[p, q, r, s] * a[p].T @ a[q].T @ a[r] @ a[s]
    if not close(ref, ref2, 1e-10, floor=1e-12):
        add(viol, "C17:int_to_h:spin-orbital-integrals", f"{tag}: the antisymmetrised spin-orbital integrals do not reproduce the spatial-integral Hamiltonian (rel {rel_err(ref2, ref):.2e})")
    if dense.shape != ref.shape or not close(dense, ref2, 1e-9, floor=1e-12):
        add(viol, f"C17:qc_model:operator:{'stacked' if desc['stacked'] else 'flat'}:{'qn' if desc['conserve_qn'] else 'noqn'}",
            f"{tag}: Mpo(qc_model) differs from the fermionic Hamiltonian by rel {rel_err(dense, ref2):.2e}")
    if not close(dense, dense.conj().T, 1e-10, floor=1e-12):
        add(viol, "C17:qc_model:not-hermitian", f"{tag}")
    Na = sum(a[2 * p].T @ a[2 * p] for p in range(norb))
    Nb = sum(a[2 * p + 1].T @ a[2 * p + 1] for p in range(norb))
    for nm, N_ in (("alpha", Na), ("beta", Nb)):
        if np.abs(dense @ N_ - N_ @ dense).max() > 1e-10 * max(1.0, np.abs(dense).max()):
            add(viol, f"C17:qc_model:number-not-conserved:{nm}", f"{tag}")
    if desc["conserve_qn"] and not desc["stacked"]:
        # the labels of the basis must be the alpha / beta occupations
        for i, b in enumerate(basis):
            want = [[0, 0], [1, 0]] if i % 2 == 0 else [[0, 0], [0, 1]]
            if np.asarray(b.sigmaqn).tolist() != want:
                add(viol, "C17:qc_model:labels", f"{tag}: site {i} sigmaqn {np.asarray(b.sigmaqn).tolist()}")
        if np.any(np.asarray(mpo.qntot) != 0):
            add(viol, "C17:qc_model:qntot", f"{tag}: {mpo.qntot}")
    nseq = 0
    if not desc["stacked"] and norb <= 2 and not viol:
        # every single swap (and every pair for one spatial orbital... the chain is short) of the freshly built operator, plain and fermionic
        for jw in (False, True):
            nseq += check_swaps(basis, terms, "Hopcroft-Karp", jw, 1 if norb == 2 else 2, viol, tag, "qc")
    return {"nontrivial": bool(np.any(h - np.diag(np.diag(h))) or np.any(eri)), "counters": {"swap_sequences": nseq}, "outcome": f"qc:{'viol' if viol else 'ok'}", "viol": list(viol.values()),
            "sample": {"desc": desc, "nterms": len(terms), "swap_sequences": nseq}}


# ------------------------------------------------------------------------------------------------ swaps

def swap_model(name, seed):
    from renormalizer.model import Model, Op, h_qc, basis as ba
    if name.startswith("qc2"):
        h, eri = integrals(2, 0b111, "generic", seed)
        sh, aseri = h_qc.int_to_h(h, eri)
        basis, terms = h_qc.qc_model(sh, aseri, conserve_qn=(name == "qc2"))
        return basis, terms
    if name.startswith("qc3"):
        h, eri = integrals(3, 0b111111, "generic", seed)
        sh, aseri = h_qc.int_to_h(h, eri)
        return h_qc.qc_model(sh, aseri, conserve_qn=(name == "qc3"))
    if name == "qc1-U":
        # one spatial orbital with vanishing one-electron block: H = U n_alpha n_beta, a single product term
        sh, aseri = h_qc.int_to_h(np.zeros((1, 1)), np.full((1, 1, 1, 1), 0.7))
        return h_qc.qc_model(sh, aseri)
    if name == "single-term":
        basis = [ba.BasisHalfSpin(i) for i in range(3)]
        return basis, [Op("sigma_x sigma_x sigma_x", [0, 1, 2], 0.37)]
    if name == "spin-long":
        # the same kind of operator written with the long spellings sigma_z / sigma_+ / sigma_-
        basis = [ba.BasisHalfSpin(i) for i in range(4)]
        rs = env.rng(seed, ("c17sl",))
        terms = []
        for i in range(4):
            for j in range(i + 1, 4):
                c = float(np.round(rs.uniform(0.2, 1.0), 3))
                zs = " ".join(["sigma_z"] * (j - i - 1))
                sym = ("sigma_- " + (zs + " " if zs else "") + "sigma_+")
                dofs = list(range(i, j + 1))
                terms.append(Op(sym, dofs, c))
                sym2 = ("sigma_+ " + (zs + " " if zs else "") + "sigma_-")
                terms.append(Op(sym2, dofs, c))
            terms.append(Op("sigma_z", i, 0.3 * (i + 1)))
        return basis, terms
    from mc.chains import Chain
    fam, n = {"spin4": ("spin", 4), "eph4": ("eph", 4)}[name]
    ch = Chain(fam, n, seed)
    return list(ch.basis), ch.h_terms


def check_swaps(basis0, terms, algo, jw, L, viol, label, sigclass, extra=()):
    """every sequence of <= L adjacent swaps from the freshly built operator; returns the number of sequences completed"""
    from renormalizer.model import Model
    from renormalizer.mps import Mpo
    n = len(basis0)
    dims0 = [b.nbas for b in basis0]
    nseq = 0
    D0 = np.asarray(Mpo(Model(list(basis0), terms), algo=algo).todense())
    w0 = np.linalg.eigvalsh((D0 + D0.conj().T) / 2)
    mixed = jw == "mixed"
    kindname = "mixed" if mixed else ("jw" if jw else "plain")
    for ln in list(range(1, L + 1)) + [None]:
        for seq0 in (itertools.product(range(n - 1), repeat=ln) if ln is not None else [tuple(e) for e in extra if len(e) > L]):
          ln = len(seq0)
          for flags in (itertools.product((False, True), repeat=ln) if mixed else [(jw,) * ln]):
            if mixed and len(set(flags)) == 1:
                continue      # uniform sequences are the other cases
            seq = seq0
            basis = list(basis0)
            mpo = Mpo(Model(list(basis0), terms), algo=algo)
            ref = D0.copy()
            dims = list(dims0)
            ok = True
            for p, jw in zip(seq, flags):
                basis[p], basis[p + 1] = basis[p + 1], basis[p]
                try:
                    mpo.try_swap_site(Model(list(basis), terms), swap_jw=jw, algo=algo)
                except Exception as e:
                    import sys
                    import traceback
                    tb = traceback.extract_tb(sys.exc_info()[2])
                    lib = [f.name for f in tb if "/renormalizer/" in f.filename]
                    src = [f.line or "" for f in tb if "/renormalizer/" in f.filename]
                    what = "duplicate-table-rows" if (src and "np.unique(table" in src[-1]) else ("bond-operator-count" if (src and "new_out_ops3" in src[-1]) else "other")
                    add(viol, f"C17:swap:exception:{type(e).__name__}:{lib[-1] if lib else '?'}:{kindname}:{sigclass if sigclass != 'qc' else label}:{what}",
                        f"{label} algo={algo} swaps {seq} with swap_jw flags {flags}: {e!r} at `{src[-1].strip() if src else '?'}`")
                    ok = False
                    break
                # reference: exchange tensor factors p, p+1 (and apply the fermionic sign for swap_jw)
                perm = list(range(n))
                perm[p], perm[p + 1] = perm[p + 1], perm[p]
                P = perm_matrix(dims, perm)
                ref = P @ ref @ P.T
                dims[p], dims[p + 1] = dims[p + 1], dims[p]
                if jw:
                    F = kron_all([np.eye(d) for d in dims[:p]] + [np.diag([1.0, 1.0, 1.0, -1.0])] + [np.eye(d) for d in dims[p + 2:]])
                    ref = F @ ref @ F
            if not ok:
                continue
            nseq += 1
            got = np.asarray(mpo.todense())
            if not close(got, ref, 1e-9, floor=1e-12):
                add(viol, f"C17:swap:operator:{kindname}:{sigclass}",
                    f"{label} algo={algo} swaps {seq} with swap_jw flags {flags}: operator differs from the {'permuted operator' if kindname == 'plain' else 'Jordan-Wigner image in the new orbital order'} by rel {rel_err(got, ref):.2e}")
            w1 = np.linalg.eigvalsh((got + got.conj().T) / 2)
            if not np.allclose(w1, w0, atol=1e-8 * max(1.0, np.abs(w0).max())):
                add(viol, f"C17:swap:spectrum:{kindname}", f"{label} swaps {seq}: spectrum changed by {np.abs(w1 - w0).max():.2e}")
            if [b.dofs for b in mpo.model.basis] != [b.dofs for b in basis]:
                add(viol, "C17:swap:model-order", f"{label} swaps {seq}")
    return nseq


def run_swap(desc, seed):
    basis0, terms = swap_model(desc["model"], seed)
    viol = {}
    sigclass = "qc" if desc["model"].startswith("qc") else desc["model"].split("-")[0]
    nseq = check_swaps(basis0, terms, desc["algo"], desc["swap_jw"], desc["L"], viol, desc["model"], sigclass, extra=desc.get("extra", ()))
    return {"nontrivial": nseq > 0, "counters": {"swap_sequences": nseq}, "outcome": f"swap:{'viol' if viol else 'ok'}", "viol": list(viol.values()), "sample": {"desc": desc, "sequences": nseq}}


# ------------------------------------------------------------------------------------------------ OFS runs

def ofs_model(name, seed):
    from renormalizer.model import Op, basis as ba, h_qc
    rs = env.rng(seed, ("c17ofs", name))
    if name == "spin5":
        n = 5
        basis = [ba.BasisHalfSpin(i) for i in range(n)]
        terms = []
        # deliberately badly ordered couplings: strong bonds between distant sites
        for (i, j, c) in [(0, 4, 1.0), (1, 3, 0.9), (0, 2, 0.4), (2, 4, 0.35), (1, 2, 0.1)]:
            terms += [Op("sigma_x sigma_x", [i, j], c), Op("sigma_z sigma_z", [i, j], 0.7 * c)]
        for i in range(n):
            terms.append(Op("sigma_z", i, float(np.round(rs.uniform(-0.5, 0.5), 3))))
        return basis, terms, [0], False
    if name == "vibronic":
        basis = [ba.BasisMultiElectron(["e0", "e1"], [0, 0]), ba.BasisSHO("v0", 0.8, 3), ba.BasisSHO("v1", 1.2, 3), ba.BasisSHO("v2", 0.5, 3)]
        terms = [Op(r"a^\dagger a", ["e0", "e0"], 0.0, [0, 0]), Op(r"a^\dagger a", ["e1", "e1"], 0.6, [0, 0]),
                 Op(r"a^\dagger a", ["e0", "e1"], 0.25, [0, 0]) * Op("x", "v2"), Op(r"a^\dagger a", ["e1", "e0"], 0.25, [0, 0]) * Op("x", "v2")]
        for k, om in (("v0", 0.8), ("v1", 1.2), ("v2", 0.5)):
            terms += [Op("p^2", k, 0.5), Op("x^2", k, 0.5 * om ** 2)]
        terms += [Op(r"a^\dagger a", ["e1", "e1"], 0.3, [0, 0]) * Op("x", "v0"), Op(r"a^\dagger a", ["e0", "e0"], -0.2, [0, 0]) * Op("x", "v1")]
        return basis, terms, [0], False
    if name == "qc3":
        h, eri = integrals(3, 0b111111, "generic", seed)
        sh, aseri = h_qc.int_to_h(h, eri)
        basis, terms = h_qc.qc_model(sh, aseri)
        return basis, terms, [2, 1], True
    h, eri = integrals(2, 0b111, "generic", seed)
    sh, aseri = h_qc.int_to_h(h, eri)
    if name == "qc2-noqn":
        basis, terms = h_qc.qc_model(sh, aseri, conserve_qn=False)
        return basis, terms, [0], True
    basis, terms = h_qc.qc_model(sh, aseri)
    return basis, terms, [1, 1], True


def run_ofs(desc, seed):
    from renormalizer.model import Model
    from renormalizer.mps import Mps, Mpo
    from renormalizer.mps.gs import optimize_mps
    from renormalizer.utils import CompressConfig, CompressCriteria, OFS, OptimizeConfig, EvolveConfig, EvolveMethod
    basis0, terms, sec, is_qc = ofs_model(desc["model"], seed)
    n = len(basis0)
    dims0 = [b.nbas for b in basis0]
    viol = {}
    ofs = getattr(OFS, desc["ofs"])
    model = Model(list(basis0), terms)
    H = Mpo(model)
    D0 = np.asarray(H.todense())
    mask = sector_projector([np.asarray(b.sigmaqn) for b in basis0], sec)
    tag = f"[{desc['model']} {desc['driver']} {desc['ofs']}]"
    jw = is_qc
    M = 8 if desc["model"] == "qc3" else 6
    def cc():
        return CompressConfig(CompressCriteria.fixed, max_bonddim=M, ofs=ofs, ofs_swap_jw=jw)
    env.reseed(seed, ("c17run", desc["model"]))
    try:
        mps = Mps.random(model, np.array(sec), M, percent=1.0)
    except FloatingPointError:
        return {"skipped": 1, "outcome": "random-failed"}
    dof0 = [b.dofs for b in basis0]

    def fermion_back(mps_out):
        """the state of mps_out re-expressed in the ORIGINAL orbital order of the Jordan-Wigner chain: site permutation plus the sign of
        the permutation restricted to the occupied orbitals (every exchange of two occupied neighbours contributes -1)"""
        order = [dof0.index(b.dofs) for b in mps_out.model.basis]
        v = dense_of(mps_out, with_coeff=False).reshape([2] * n)
        out = np.zeros(2 ** n, dtype=complex)
        for bits in itertools.product((0, 1), repeat=n):
            amp = v[bits]
            if amp == 0:
                continue
            occ = [order[k] for k in range(n) if bits[k]]
            inv = sum(1 for i in range(len(occ)) for j in range(i + 1, len(occ)) if occ[i] > occ[j])
            tgt = [0] * n
            for k in range(n):
                tgt[order[k]] = bits[k]
            out[int("".join(map(str, tgt)), 2)] = (-1) ** inv * amp
        return out, order

    def perm_back(mps_out):
        """dense vector of mps_out re-expressed in the original site order (with the fermionic signs undone for swap_jw)"""
        order = [dof0.index(b.dofs) for b in mps_out.model.basis]       # new position k holds original site order[k]
        v = dense_of(mps_out, with_coeff=False).reshape([dims0[i] for i in order])
        inv = np.argsort(order)
        return np.transpose(v, inv).reshape(-1), order

    try:
        if desc["driver"] == "gs":
            short = desc.get("schedule") == "short"      # two sweeps without noise: the site order is still changing when the result is captured, and the captured state is exactly the local eigenvector
            mps.optimize_config = OptimizeConfig(procedure=[[cc(), 0], [cc(), 0]] if short else [[cc(), 0.4], [cc(), 0.2], [cc(), 0], [cc(), 0], [cc(), 0]])
            mps.optimize_config.method = "2site"
            mps.compress_config = cc()
            energies, out = optimize_mps(mps, H)
        else:
            mps = mps.to_complex()
            mps.canonicalise()
            mps.canonicalise()
            mps.evolve_config = EvolveConfig(EvolveMethod.tdvp_ps2)
            mps.compress_config = cc()
            v_init = dense_of(mps, with_coeff=False)
            out = mps
            for _ in range(3):
                out = out.evolve(H, 0.1)
    except NotImplementedError:
        return {"rejected": 1, "outcome": "refused"}
    except Exception as e:
        import sys
        import traceback
        tb = traceback.extract_tb(sys.exc_info()[2])
        lib = [f.name for f in tb if "/renormalizer/" in f.filename]
        add(viol, f"C17:ofs:exception:{type(e).__name__}:{lib[-1] if lib else '?'}:{desc['driver']}", f"{tag}: {e!r}")
        return {"nontrivial": True, "viol": list(viol.values()), "outcome": "ofs-exc"}
    order = [dof0.index(b.dofs) for b in out.model.basis]
    swapped = order != list(range(n))
    # the Hamiltonian operator after the run: the original one up to the site permutation (and the JW signs)
    Dn = np.asarray(H.todense())
    w0 = np.linalg.eigvalsh((D0 + D0.conj().T) / 2)
    wn = np.linalg.eigvalsh((Dn + Dn.conj().T) / 2)
    if not np.allclose(w0, wn, atol=1e-8):
        add(viol, f"C17:ofs:hamiltonian-spectrum-changed:{desc['driver']}", f"{tag}: final order {order}: spectrum of the operator changed by {np.abs(w0 - wn).max():.2e}")
    if [b.dofs for b in H.model.basis] != [b.dofs for b in out.model.basis]:
        add(viol, f"C17:ofs:operator-and-state-order-differ:{desc['driver']}", f"{tag}: operator order {[b.dofs for b in H.model.basis]} vs state {[b.dofs for b in out.model.basis]}")
    if not jw:
        # (the operator's OWN final order: it can differ from the state's, which is the known finding reported just above)
        order_h = [dof0.index(b.dofs) for b in H.model.basis]
        P = perm_matrix(dims0, order_h)
        if not close(Dn, P @ D0 @ P.T, 1e-8, floor=1e-12):
            add(viol, f"C17:ofs:operator-not-permuted-original:{desc['driver']}", f"{tag}: final order {order}: rel {rel_err(Dn, P @ D0 @ P.T):.2e}")
    Hs = ((D0 + D0.conj().T) / 2)[np.ix_(mask, mask)]
    wex, vex = np.linalg.eigh(Hs)
    if desc["driver"] == "gs":
        e = min(np.atleast_1d(np.array(energies, dtype=float)))
        if e < wex[0] - 1e-9:
            add(viol, "C17:ofs:gs:not-variational", f"{tag}: {e} < {wex[0]}")
        short = desc.get("schedule") == "short"
        if not short and abs(e - wex[0]) > 1e-5 * max(1, abs(wex[0])):
            add(viol, f"C17:ofs:gs:energy:{desc['ofs']}", f"{tag}: final order {order}: energy {e} vs exact {wex[0]}")
        # the returned state is the one whose energy was reported (no truncation at this bond dimension): its energy, evaluated with the
        # ORIGINAL dense operator after mapping the state back to the original site order, equals the reported minimum -- converged or not
        vb, _ = fermion_back(out) if jw else perm_back(out)
        eb = np.real(np.vdot(vb, D0 @ vb)) / np.real(np.vdot(vb, vb))
        if abs(eb - e) > 1e-6 * max(1, abs(e)):
            add(viol, f"C17:ofs:gs:returned-state-energy-differs-from-reported:{'jw' if jw else 'plain'}", f"{tag}: final order {order}: the returned state (mapped back) has energy {eb}, reported {e}")
        # energy of the returned state with the (re-ordered) operator -- only meaningful when the operator is in the state's order
        # (when it is not, that is reported once above as operator-and-state-order-differ)
        same_order = [b.dofs for b in H.model.basis] == [b.dofs for b in out.model.basis]
        eh = out.expectation(H) if same_order else e
        if abs(eh - e) > 1e-6 * max(1, abs(e)):
            add(viol, f"C17:ofs:gs:state-operator-inconsistent:{'jw' if jw else 'plain'}", f"{tag}: final order {order}: <psi|H_reordered|psi> = {eh} but the reported energy is {e}")
        if True:
            v, _ = fermion_back(out) if jw else perm_back(out)
            gs = np.zeros(len(mask), dtype=complex)
            gs[mask] = vex[:, 0]
            ov = abs(np.vdot(gs, v)) / np.linalg.norm(v)
            gap = wex[1] - wex[0] if len(wex) > 1 else 1.0
            if gap > 1e-3 and abs(ov - 1) > 1e-4 and not short:
                add(viol, "C17:ofs:gs:state-not-ground-state", f"{tag}: overlap of the state (permuted back) with the exact ground state {ov}")
    else:
        # time evolution: the state permuted back equals exp(-iHt) psi0 (plain swaps); with JW swaps the energy and norm are checked
        T = 0.3
        eh = out.expectation(H)
        e0 = np.real(np.vdot(v_init, D0 @ v_init)) / np.vdot(v_init, v_init).real
        if abs(eh - e0) > 5e-3 * max(1, abs(e0)):
            add(viol, f"C17:ofs:ps2:energy-not-conserved:{'jw' if jw else 'plain'}", f"{tag}: final order {order}: energy {e0} -> {eh}")
        if True:
            v, _ = fermion_back(out) if jw else perm_back(out)
            ref = scipy.linalg.expm(-1j * T * D0) @ v_init
            err = np.linalg.norm(v - ref) / np.linalg.norm(ref)
            if err > 2e-2:
                add(viol, "C17:ofs:ps2:propagator", f"{tag}: final order {order}: state permuted back differs from exp(-iHt) psi0 by {err:.3e}")
    return {"nontrivial": swapped or desc["ofs"] == "ofs_debug", "counters": {"runs_with_swaps": int(swapped)}, "outcome": f"ofs:{'swapped' if swapped else 'kept'}:{'viol' if viol else 'ok'}",
            "viol": list(viol.values()), "sample": {"desc": desc, "final_order": order}}


def run_case(desc, seed):
    if desc["k"] == "qc":
        return run_qc(desc, seed)
    if desc["k"] == "swap":
        return run_swap(desc, seed)
    return run_ofs(desc, seed)
