"""C08 -- ground- and excited-state searches are variational and consistent.   (E1 over configurations)

Hamiltonians with a dense reference (electron-phonon chain, electronic chain, two-component ab-initio-like spin model,
real and complex-Hermitian spin chains, a 10-site chain that forces the iterative eigensolver) x EVERY sector x site-update
method {1site, 2site} x eigensolver {direct, davidson} x number of roots 1..4 x EVERY sweep schedule of length <= 3 over
{(2,0.5),(4,0.2),(M_exact,0)} (plus a long converging schedule) x shift targeting on / off;  trees: optimize_ttns on every
plane tree with <= 4 nodes with {davidson, arpack, direct}.
Oracle: exact diagonalisation of the dense Hamiltonian projected on the sector: every reported energy e_i >= E_i^exact - 1e-9;
returned states normalised and in the sector; <psi|H|psi> of the returned state >= E_0; when the schedule ends at the exact
bond dimension: min e == E_0 and <psi|H|psi> == reported energy; with omega the reported value is min spec((H-omega)^2).
"""
import itertools

import numpy as np

from mc import env  # noqa: F401
from mc import trees as TR
from mc.chains import Chain, sectors, basis_list, neutral_terms
from mc.machine import dense_of
from mc.space import plane_trees
from mc.ref.dense import close, rel_err, sector_projector

ID = "C08"
LEVEL = "exploration"
RULE = ("one case = (Hamiltonian family, n, sector, method, eigensolver, nroots, omega on/off) running every sweep schedule; tree cases: (plane tree, sector, eigensolver); "
        "non-trivial = sector dimension > 1 (so that the optimisation has something to do); distinct = distinct descriptor; counters give the optimiser runs")
ASSUMPTIONS = [
    "the 'exact' bond dimension of a schedule is max(bond_dims_exact) of the chain",
    "variational bound with slack 1e-9 (relative to max(1,||H||)); equality checks at 1e-6",
    "random initial guesses are seeded; primme is not installed (that branch is not explored)",
    "exactness at full bond dimension is claimed where the sweeps can reach every symmetry block; for the two-component model (couplings only between next-nearest sites of one species) only the variational bound, normalisation and sector are checked (DMRG stays in the block structure of its initial guess there: noted in DESIGN.md)",
]
HORIZON_S = 900
HEAVY_CASES = True
STEPS = [(2, 0.5), (4, 0.2), ("exact", 0)]


def COST(desc):
    return 20 * desc.get("nroots", 1) if desc.get("fam") in ("big", "cbig") else (3 if desc.get("nroots", 1) > 1 else 1)


OMEGA_STATE_CHECKS = [0]


def BOUND(tier):
    return {"families": ["eph n=4", "elec n=4", "two n=4", "spin n=4", "complex spin n=4", "spin n=10 real and complex Hermitian (local problems >= 1000: iterative eigensolver actually used), 1..2 (3) roots"], "schedules": "all sequences of length <= 3 over 3 steps + one long schedule",
            "nroots": [1, 2, 3, 4], "trees": "plane trees <= 4 nodes",
            "site_swapping": "4 models (spin, vibronic, ab-initio-like with / without labels) x 4 swapping criteria, plain and Jordan-Wigner exchanges"}


def cases(tier, seed):
    quick = tier == "quick"
    for fam, n in (("eph", 4), ("elec", 4), ("two", 4), ("spin", 4), ("cspin", 4)):
        for sec in sectors(fam if fam != "cspin" else "spin", n):
            for method in ("1site", "2site"):
                for algo in ("direct", "davidson"):
                    for nroots in (1, 2, 3, 4):
                        if quick and nroots in (3,) and algo == "davidson":
                            continue
                        for omega in (False, True):
                            if omega and nroots > 1:
                                continue
                            yield {"k": "chain", "fam": fam, "n": n, "sector": sec, "method": method, "algo": algo, "nroots": nroots, "omega": omega}
    for fam, n, sec in (("elec", 4, [2]), ("eph", 4, [1]), ("spin", 4, [0])):
        for method in ("1site", "2site"):
            yield {"k": "omega-scan", "fam": fam, "n": n, "sector": sec, "method": method}
    for method in ("1site", "2site"):
        yield {"k": "chain", "fam": "big", "n": 10, "sector": [0], "method": method, "algo": "davidson", "nroots": 1, "omega": False}
    # local problems of dimension >= 1000 are the only ones that reach the iterative eigensolver: real and complex Hermitian, one and several roots
    for fam, nroots in (("big", 2), ("cbig", 1), ("cbig", 2)) + ((("cbig", 3), ("big", 3)) if not quick else ()):
        yield {"k": "chain", "fam": fam, "n": 10, "sector": [0], "method": "2site", "algo": "davidson", "nroots": nroots, "omega": False}
    yield from ofs_cases()
    for N in (2, 3, 4):
        for parent in plane_trees(N):
            for algo in ("davidson", "arpack", "direct"):
                for isec in (1, 2):
                    yield {"k": "tree", "parent": parent, "algo": algo, "isec": isec}
                # two-component labels, and a purely virtual root above the tree
                yield {"k": "tree", "parent": parent, "algo": algo, "isec": 4, "tfam": "two"}
                if N <= 3:
                    yield {"k": "tree", "parent": parent, "algo": algo, "isec": 1, "virtual_root": True}
                    yield {"k": "tree", "parent": parent, "algo": algo, "isec": 4, "tfam": "two", "virtual_root": True}


def build(fam, n, seed):
    from renormalizer.model import Op, Model, basis as ba
    from renormalizer.mps import Mpo
    if fam in ("cspin", "cbig"):
        ch = Chain("spin", n, seed)
        rs = env.rng(seed, ("cspin", n))
        terms = []
        for i in range(n):
            terms.append(Op("sigma_z", i, float(np.round(rs.uniform(-1, 1), 3))))
        for i in range(n - 1):
            c = float(np.round(rs.uniform(0.3, 1.2), 3))
            ph = np.exp(1j * float(np.round(rs.uniform(0.3, 1.2), 3)))
            terms.append(Op("sigma_+ sigma_-", [i, i + 1], c * ph))
            terms.append(Op("sigma_- sigma_+", [i, i + 1], c * np.conj(ph)))
            terms.append(Op("sigma_z sigma_z", [i, i + 1], 0.4))
        for i in range(n - 2):
            c = 0.35
            ph = np.exp(0.7j)
            terms.append(Op("sigma_+ sigma_-", [i, i + 2], c * ph))
            terms.append(Op("sigma_- sigma_+", [i, i + 2], c * np.conj(ph)))
        ch.h_terms = terms
        ch.model = Model(list(ch.basis), terms)
        return ch
    if fam == "big":
        ch = Chain("spin", n, seed)
        return ch
    return Chain(fam, n, seed)


def add(viol, sig, msg):
    if sig not in viol:
        viol[sig] = {"sig": sig, "msg": msg}


def run_chain(desc, seed):
    from renormalizer.mps import Mps, Mpo
    from renormalizer.mps.gs import optimize_mps
    from renormalizer.utils import OptimizeConfig
    fam, n, sec = desc["fam"], desc["n"], desc["sector"]
    ch = build(fam, n, seed)
    H = Mpo(ch.new_model() if fam not in ("cspin", "cbig") else ch.model, ch.h_terms)
    Hd = np.asarray(H.todense())
    viol = {}
    mask = sector_projector(ch.sigmaqn(), sec)
    dimsec = int(mask.sum())
    Hs = ((Hd + Hd.conj().T) / 2)[np.ix_(mask, mask)]
    if not close(Hd, Hd.conj().T, 1e-10):
        return {"skipped": 1, "outcome": "non-hermitian-model"}
    wex = np.linalg.eigvalsh(Hs)
    hscale = max(1.0, np.abs(wex).max())
    omega = 0.5 * (wex[0] + wex[-1]) + 0.013 if desc["omega"] else None
    nroots = desc["nroots"]
    if nroots > dimsec:
        return {"skipped": 1, "outcome": "more-roots-than-states"}
    is_complex = np.abs(np.imag(Hd)).max() > 1e-12
    tag = f"[{fam} n={n} sector={sec} {desc['method']} {desc['algo']} nroots={nroots} omega={omega}]"
    # exact bond dimension
    probe = ch.random_mps(sec, 2, "probe")
    mexact = int(max(probe.bond_dims_exact))
    if fam in ("big", "cbig"):
        schedules = [[(16, 0.4), (16, 0.2), (16, 0), (16, 0)]]
    else:
        schedules = [list(s) for L in (1, 2, 3) for s in itertools.product(STEPS, repeat=L)]
        schedules.append([("exact", 0.4), ("exact", 0.2), ("exact", 0), ("exact", 0), ("exact", 0)])
        if desc["nroots"] > 1 or desc["omega"] or desc["algo"] == "davidson":
            # the full schedule product is run for the plain single-root direct configuration; the others take the schedules of
            # length <= 2 and the long one (stated in the evidence through counters.optimiser_runs)
            schedules = [s for s in schedules if len(s) <= 2 or len(s) == 5]
    nrun = 0
    for isched, sched in enumerate(schedules):
        proc = [[mexact if m == "exact" else m, p] for m, p in sched]
        ends_exact = sched[-1][0] == "exact" and len(sched) >= 1 and fam != "two"
        converging = len(sched) == 5 or fam in ("big", "cbig")
        env.reseed(seed, ("c08", fam, n, tuple(sec), isched))
        try:
            m0 = max(2, proc[0][0]) if not converging else max(mexact, 2)
            mps = Mps.random(ch.model if fam in ("cspin", "cbig") else ch.new_model(), np.array(sec), m0, percent=1.0)
        except FloatingPointError:
            continue
        if is_complex:
            mps = mps.to_complex()
        mps.optimize_config = OptimizeConfig(procedure=proc)
        mps.optimize_config.method = desc["method"]
        mps.optimize_config.algo = desc["algo"]
        mps.optimize_config.nroots = nroots
        try:
            energies, res = optimize_mps(mps, H, omega=omega)
            nrun += 1
        except Exception as e:
            import sys
            import traceback
            tb = traceback.extract_tb(sys.exc_info()[2])
            lib = [f.name for f in tb if "/renormalizer/" in f.filename]
            if isinstance(e, ValueError) and "broadcast" in str(e) and nroots > 1 and lib and lib[-1] == "optimize_mps":
                add(viol, "C08:nroots-exceeds-a-local-dimension:ValueError", f"{tag} schedule {proc}: {e!r} (a local eigenproblem has fewer than nroots states: the per-sweep energy lists are ragged and the convergence test fails)")
            elif isinstance(e, AssertionError) and lib and lib[-1] == "optimize_mps" and len(proc) == 1:
                add(viol, "C08:single-sweep-schedule:AssertionError", f"{tag} schedule {proc}: optimize_mps raised AssertionError (assert res_mps is not None) for a schedule of one sweep")
            else:
                add(viol, f"C08:exception:{type(e).__name__}:{lib[-1] if lib else '?'}:{desc['method']}:{desc['algo']}:nroots{min(nroots, 2)}{':omega' if omega is not None else ''}",
                    f"{tag} schedule {proc}: {e!r}")
            continue
        states = res if isinstance(res, list) else [res]
        # ---- reported energies
        if omega is None:
            # per sweep a scalar (one root) or a list of roots (a local problem smaller than nroots returns fewer of them)
            E = [np.atleast_1d(np.array(x, dtype=float)) for x in energies]
            for isw, row in enumerate(E):
                for ir in range(len(row)):
                    if row[ir] < wex[ir] - 1e-9 * hscale:
                        add(viol, f"C08:not-variational:{desc['method']}:{desc['algo']}:nroots{min(nroots, 2)}",
                            f"{tag} schedule {proc}: reported energy {row[ir]!r} of root {ir} in sweep {isw} is BELOW the exact eigenvalue {wex[ir]!r}")
            if (ends_exact and converging) or dimsec == 1:
                best = np.array([min(r[0] for r in E)]) if nroots == 1 else E[-1]
                for ir in range(len(best)):
                    if abs(best[ir] - wex[ir]) > 1e-6 * hscale:
                        add(viol, f"C08:not-exact-at-full-bond:{desc['method']}:{desc['algo']}:nroots{min(nroots, 2)}",
                            f"{tag} schedule {proc}: root {ir}: reported {best[ir]!r}, exact {wex[ir]!r}")
        else:
            w2 = np.linalg.eigvalsh((Hs - omega * np.eye(dimsec)) @ (Hs - omega * np.eye(dimsec)))
            E = np.array(energies, dtype=float).ravel()
            if np.any(E < w2[0] - 1e-9 * hscale ** 2):
                add(viol, f"C08:omega:not-variational:{desc['method']}:{desc['algo']}", f"{tag} schedule {proc}: reported {E.min()!r} below min spec((H-omega)^2) = {w2[0]!r}")
            if ends_exact and converging and abs(E.min() - w2[0]) > 1e-6 * hscale ** 2:
                add(viol, f"C08:omega:not-exact-at-full-bond:{desc['method']}:{desc['algo']}", f"{tag} schedule {proc}: reported {E.min()!r}, min spec((H-omega)^2) = {w2[0]!r}")
        # ---- returned states
        for ir, st in enumerate(states):
            v = dense_of(st, with_coeff=False)
            nv = np.linalg.norm(v)
            if abs(nv - 1) > 1e-8:
                add(viol, f"C08:state-not-normalised:{desc['method']}:nroots{min(nroots, 2)}", f"{tag} schedule {proc}: root {ir} has norm {nv}")
            out = np.linalg.norm(v[~mask])
            if out > 1e-9:
                add(viol, f"C08:state-outside-sector:{desc['method']}", f"{tag} schedule {proc}: root {ir}: weight {out:.2e} outside the sector")
            if np.any(np.asarray(st.qntot).reshape(-1) != np.array(sec)):
                add(viol, "C08:state-qntot", f"{tag}: qntot {st.qntot}")
            eh = np.real(np.vdot(v, Hd @ v)) / max(nv ** 2, 1e-300)
            if omega is not None and ends_exact and converging and nroots == 1:
                # the returned state is the one whose (H - omega)^2 expectation was reported
                K = Hd - omega * np.eye(len(Hd))
                e2 = np.real(np.vdot(K @ v, K @ v)) / max(nv ** 2, 1e-300)
                OMEGA_STATE_CHECKS[0] += 1
                if abs(e2 - w2[0]) > 1e-6 * hscale ** 2:
                    add(viol, f"C08:omega:returned-state-differs-from-reported:{desc['method']}:{desc['algo']}:{'complex' if is_complex else 'real'}",
                        f"{tag} schedule {proc}: returned state has <(H-omega)^2> = {e2!r}, reported / exact minimum {w2[0]!r}")
            if omega is None:
                if eh < wex[0] - 1e-9 * hscale:
                    add(viol, f"C08:state-energy-below-ground-state:{desc['method']}", f"{tag}: <psi|H|psi> = {eh!r} < E0 = {wex[0]!r}")
                eh_lib = st.expectation(H)
                if abs(eh_lib - eh) > 1e-8 * hscale:
                    add(viol, "C08:expectation-of-returned-state", f"{tag}: Mps.expectation {eh_lib!r} vs dense {eh!r}")
                if ends_exact and converging and nroots == 1 and abs(eh - wex[0]) > 1e-6 * hscale:
                    add(viol, f"C08:returned-state-energy-differs-from-reported:{desc['method']}:{desc['algo']}:{'complex' if is_complex else 'real'}",
                        f"{tag} schedule {proc}: returned state has <H> = {eh!r}, reported/exact ground-state energy {wex[0]!r}")
                if ends_exact and converging and nroots > 1 and abs(eh - wex[ir]) > 1e-5 * hscale:
                    add(viol, f"C08:returned-root-energy:{desc['method']}:{desc['algo']}", f"{tag} schedule {proc}: root {ir} has <H> = {eh!r}, exact {wex[ir]!r}")
        if nroots > 1 and ends_exact and converging:
            G = np.array([[np.vdot(dense_of(a, with_coeff=False), dense_of(b, with_coeff=False)) for b in states] for a in states])
            if np.abs(G - np.eye(len(states))).max() > 1e-5:
                add(viol, f"C08:roots-not-orthonormal:{desc['method']}", f"{tag}: Gram matrix deviates by {np.abs(G - np.eye(len(states))).max():.2e}")
    nomega, OMEGA_STATE_CHECKS[0] = OMEGA_STATE_CHECKS[0], 0
    return {"nontrivial": dimsec > 1 and nrun > 0, "counters": {"optimiser_runs": nrun, "omega_state_checks": nomega}, "outcome": f"chain:{'viol' if viol else 'ok'}", "viol": list(viol.values()),
            "sample": {"desc": desc, "sector_dim": dimsec, "E0": float(wex[0]), "runs": nrun}}


def run_tree(desc, seed):
    from renormalizer.tn import TTNS, TTNO, optimize_ttns
    parent = desc["parent"]
    N = len(parent)
    fam = desc.get("tfam", "elec")
    basis = basis_list(fam, N)
    groups = [(i,) for i in range(N)]
    if desc.get("virtual_root"):
        parent = [-1] + [p + 1 for p in parent]
        groups = [()] + groups
    secs = sectors(fam, N)
    sec = secs[min(desc["isec"], len(secs) - 1)]
    rs = env.rng(seed, ("c08tree", N))
    terms = neutral_terms(fam, N, rs)
    viol = {}
    tree = TR.build_basis_tree(parent, groups, basis)
    H = TTNO(tree, terms)
    order = list(basis)
    Hd = np.asarray(H.todense(order))
    mask = sector_projector([np.asarray(b.sigmaqn) for b in basis], sec)
    wex = np.linalg.eigvalsh(((Hd + Hd.conj().T) / 2)[np.ix_(mask, mask)])
    hscale = max(1.0, np.abs(wex).max())
    tag = f"[tree {fam} {parent} groups={groups} sector={sec} {desc['algo']}]"
    nrun = 0
    for proc in ([[2, 0.4], [4, 0]], [[8, 0.4], [8, 0.2], [8, 0], [8, 0]]):
        env.reseed(seed, ("c08t", tuple(parent), tuple(sec)))
        try:
            t = TTNS.random(tree, np.array(sec), 2)
        except (FloatingPointError, ValueError):
            continue
        t.optimize_config.algo = desc["algo"]
        try:
            e_list = optimize_ttns(t, H, proc)
            nrun += 1
        except Exception as e:
            import sys
            import traceback
            tb = traceback.extract_tb(sys.exc_info()[2])
            lib = [f.name for f in tb if "/renormalizer/" in f.filename]
            if isinstance(e, AssertionError) and lib and lib[-1] == "optimize_recursion":
                return {"rejected": 1, "outcome": "single-node-refused"}
            add(viol, f"C08:tree:exception:{type(e).__name__}:{lib[-1] if lib else '?'}:{desc['algo']}", f"{tag} procedure {proc}: {e!r}")
            continue
        E = np.array(e_list, dtype=float)
        if np.any(E < wex[0] - 1e-8 * hscale):
            add(viol, f"C08:tree:not-variational:{desc['algo']}", f"{tag} procedure {proc}: reported {E.min()!r} < exact {wex[0]!r}")
        v = TR.dense_state(t, order)
        nv = np.linalg.norm(v)
        if abs(nv - 1) > 1e-6:
            add(viol, "C08:tree:state-not-normalised", f"{tag}: norm {nv}")
        if np.linalg.norm(v[~mask]) > 1e-9:
            add(viol, "C08:tree:state-outside-sector", f"{tag}")
        eh = np.real(np.vdot(v, Hd @ v)) / nv ** 2
        if eh < wex[0] - 1e-8 * hscale:
            add(viol, "C08:tree:state-energy-below-ground-state", f"{tag}: {eh} < {wex[0]}")
        if len(proc) == 4 and fam != "two":      # (two-component next-nearest model: DMRG stays in the block structure of its guess, see the chain part)
            if abs(E[-1] - wex[0]) > 1e-5 * hscale:
                add(viol, f"C08:tree:not-exact-at-full-bond:{desc['algo']}", f"{tag}: reported {E[-1]!r}, exact {wex[0]!r}")
            if abs(eh - wex[0]) > 1e-5 * hscale:
                add(viol, f"C08:tree:returned-state-energy:{desc['algo']}", f"{tag}: <H> of the optimised state {eh!r}, exact {wex[0]!r}")
    return {"nontrivial": int(mask.sum()) > 1 and nrun > 0, "counters": {"optimiser_runs": nrun}, "outcome": f"tree:{'viol' if viol else 'ok'}", "viol": list(viol.values()),
            "sample": {"desc": desc, "E0": float(wex[0])}}


def run_omega_scan(desc, seed):
    """history on ONE model object and ONE operator object: a ground-state search, then interior eigenstates targeted with a sequence of
    different shifts omega (and the first shift once more at the end); every search is compared with min spec((H - omega)^2)"""
    from renormalizer.mps import Mps, Mpo
    from renormalizer.mps.gs import optimize_mps
    from renormalizer.utils import OptimizeConfig
    fam, n, sec = desc["fam"], desc["n"], desc["sector"]
    ch = Chain(fam, n, seed)
    model = ch.new_model()
    H = Mpo(model, ch.h_terms)
    Hd = np.asarray(H.todense())
    mask = sector_projector(ch.sigmaqn(), sec)
    Hs = ((Hd + Hd.conj().T) / 2)[np.ix_(mask, mask)]
    w = np.linalg.eigvalsh(Hs)
    hscale = max(1.0, np.abs(w).max())
    viol = {}
    nrun = 0
    probe = ch.random_mps(sec, 2, "probe")
    mexact = int(max(probe.bond_dims_exact))
    ks = [k for k in (1, len(w) // 2, len(w) - 2) if 0 < k < len(w) - 1]
    targets = [None] + [w[k] + 0.3 * (w[k + 1] - w[k]) for k in ks] + ([w[ks[0]] + 0.3 * (w[ks[0] + 1] - w[ks[0]])] if ks else [])
    for i, omega in enumerate(targets):
        env.reseed(seed, ("c08scan", fam, n, tuple(sec), i))
        try:
            mps = Mps.random(model, np.array(sec), max(mexact, 2), percent=1.0)
        except FloatingPointError:
            continue
        mps.optimize_config = OptimizeConfig(procedure=[[mexact, 0.4], [mexact, 0.2], [mexact, 0], [mexact, 0], [mexact, 0]])
        mps.optimize_config.method = desc["method"]
        try:
            energies, res = optimize_mps(mps, H, omega=omega)
            nrun += 1
        except Exception as e:
            add(viol, f"C08:omega-scan:exception:{type(e).__name__}", f"[{fam} n={n} sector={sec}] search {i} (omega={omega}): {e!r}")
            continue
        E = np.array(energies, dtype=float).ravel()
        if omega is None:
            if abs(E.min() - w[0]) > 1e-6 * hscale:
                add(viol, "C08:omega-scan:ground-state", f"[{fam} n={n} sector={sec}]: {E.min()} vs {w[0]}")
            continue
        w2 = np.sort((w - omega) ** 2)
        if abs(E.min() - w2[0]) > 1e-6 * hscale ** 2:
            add(viol, f"C08:omega-scan:{'first' if i == 1 else 'later'}-target:{desc['method']}",
                f"[{fam} n={n} sector={sec}] search number {i} on the same model / operator objects, omega = {omega:.6f}: reported {E.min()!r}, min spec((H-omega)^2) = {w2[0]!r}")
        v = dense_of(res) if not isinstance(res, list) else dense_of(res[0])
        eh = np.real(np.vdot(v, Hd @ v)) / np.vdot(v, v).real
        closest = w[np.argmin(np.abs(w - omega))]
        if abs(eh - closest) > 1e-4 * hscale:
            add(viol, f"C08:omega-scan:returned-state:{'first' if i == 1 else 'later'}-target", f"[{fam} n={n} sector={sec}] search {i}, omega = {omega:.6f}: <H> of the returned state {eh!r}, eigenvalue closest to omega {closest!r}")
    return {"nontrivial": nrun >= 3, "counters": {"optimiser_runs": nrun}, "outcome": f"omega-scan:{'viol' if viol else 'ok'}", "viol": list(viol.values()), "sample": {"desc": desc, "targets": len(targets)}}


def ofs_cases():
    # on-the-fly site swapping ON (schedules of CompressConfig objects, the only form in which the optimiser keeps the swapping settings):
    # spin, vibronic and ab-initio-like models, every swapping criterion, plain and Jordan-Wigner exchanges
    for model in ("spin5", "vibronic", "qc2", "qc2-noqn"):
        for ofs in ("ofs_d", "ofs_s", "ofs_ds", "ofs_debug"):
            yield {"k": "ofs", "model": model, "driver": "gs", "ofs": ofs}
            yield {"k": "ofs", "model": model, "driver": "gs", "ofs": ofs, "schedule": "short"}


def run_ofs(desc, seed):
    """the optimiser runs of C17 (which owns the operator / site-order bookkeeping) judged by C08's clauses: reported energy variational and
    exact at full bond dimension, returned state (mapped back to the original site order, with the fermionic sign for Jordan-Wigner
    exchanges) is the exact ground state"""
    from checks import c17_fermion_ofs as C17
    r = C17.run_ofs(dict(desc), seed)
    keep = {"C17:ofs:gs:not-variational": "C08:ofs:not-variational", "C17:ofs:gs:state-not-ground-state": "C08:ofs:returned-state-not-ground-state",
            "C17:ofs:gs:returned-state-energy-differs-from-reported:jw": "C08:ofs:returned-state-energy-differs-from-reported:jw",
            "C17:ofs:gs:returned-state-energy-differs-from-reported:plain": "C08:ofs:returned-state-energy-differs-from-reported:plain"}
    viol = []
    for v in r.get("viol", []):
        sig = v["sig"]
        if sig in keep:
            viol.append({"sig": keep[sig], "msg": v["msg"]})
        elif sig.startswith("C17:ofs:gs:energy:"):
            viol.append({"sig": "C08:ofs:not-exact-at-full-bond:" + sig.split(":")[-1], "msg": v["msg"]})
        elif sig.startswith("C17:ofs:exception:"):
            viol.append({"sig": sig.replace("C17:", "C08:", 1), "msg": v["msg"]})
    return {"nontrivial": r.get("nontrivial", False), "counters": {"optimiser_runs": 1, "runs_with_swaps": (r.get("counters") or {}).get("runs_with_swaps", 0)},
            "outcome": "ofs:" + ("viol" if viol else "ok"), "viol": viol, "sample": r.get("sample")}


def run_case(desc, seed):
    if desc["k"] == "ofs":
        return run_ofs(desc, seed)
    if desc["k"] == "omega-scan":
        return run_omega_scan(desc, seed)
    if desc["k"] == "chain":
        return run_chain(desc, seed)
    return run_tree(desc, seed)
