"""C16 -- built-in basis sets and model builders realise their documented physics.   (E1)

(a) every basis class x sizes x parameters x EVERY supported symbol against matrices written here: harmonic-oscillator
    ladder operators built in a larger space and projected (so the documented truncation at the highest level is honoured):
    a symbol written as a product denotes the ordered matrix product, x^k / p^k are powers of the exact operators,
    [x,p] = i on the untruncated block, DVR variants are the unitary transforms / DVR definitions of the plain ones,
    shifted origin = explicit shift; sine-DVR matrices against Gauss-Legendre quadrature of the analytic basis functions;
    Pauli algebra; single-1 positions of the multi-electron bases.
(b) builders: Holstein (molecules x modes x equal/different frequencies x open/periodic x schemes 1-4 x Quantity/matrix J),
    spin-boson baths, translation-invariant models (unit cells, ncell, interaction ranges incl. wrap-around) against
    independently assembled dense Hamiltonians; spectra across schemes on the shared sectors; Quantity unit round trips.
"""
import itertools

import numpy as np

from mc import env  # noqa: F401
from mc.ref.dense import close, rel_err, kron_all, ladder, sector_projector

ID = "C16"
LEVEL = "exploration"
RULE = ("one case = (basis class, size, parameters, symbol) or (builder, parameter tuple); non-trivial = the reference matrix is non-zero and, for "
        "builders, the model has at least two sites; distinct = distinct descriptor")
ASSUMPTIONS = [
    "oscillator reference: ladder matrices in a space of nbas+12 levels, projected on the first nbas levels",
    "sine-DVR reference: 200-point Gauss-Legendre quadrature of sqrt(2/L) sin(j pi (x-x0)/L) (exact to rounding for these integrands)",
    "spin-boson coupling constants are c_i = -omega_i^2 d_i (the mapping the builder applies to Phonon displacements)",
    "tolerance 1e-9 relative (1e-7 for quadrature)",
]
HORIZON_S = 300
TOL = 1e-9

SHO_SYMBOLS = ["b", "b b", r"b^\dagger", r"b^\dagger b^\dagger", r"b^\dagger b", r"b b^\dagger", r"b^\dagger+b", r"b^\dagger + b", r"b^\dagger-b",
               "x", "x^1", "x^2", "x^3", "x^4", "x x", "x x x", "p", "p^1", "p^2", "p^3", "p^4", "p p", "p p p", "x p", "p x", "x dx", "dx x",
               "x partialx", "dx", "partialx", "dx^2", "dx dx", "partialx^2", "I", "n"]
SINE_SYMBOLS = ["I", "x", "x^1", "x^2", "x^3", "x x", "x x x", "dx", "partialx", "dx^2", "dx dx", "p", "p^2", "x dx", "x^2 p^2", "x^2 dx^2", "x^2 dx",
                "x p^2", "x dx^2", "x^3 p^2", "x^3 dx^2"]
SPIN_SYMBOLS = ["I", "sigma_x", "X", "x", "sigma_y", "Y", "y", "isigma_y", "iY", "iy", "sigma_z", "Z", "z", "sigma_-", "-", "sigma_+", "+"]


def BOUND(tier):
    return {"sho_nbas": "1..6" if tier == "quick" else "1..10", "sine_nbas": "2..5" if tier == "quick" else "2..8",
            "holstein": "1..3 molecules x 1..2 modes x schemes 1..4", "ti1d": "ncell 2..4, ranges 1..ncell (wrap-around)"}


def cases(tier, seed):
    quick = tier == "quick"
    for name in repeat_objects():
        yield {"k": "repeat", "obj": name}
    for nbas in range(1, (6 if quick else 10) + 1):
        for omega in (0.5, 1.3):
            for x0 in (0.0, 0.7):
                for dvr in (False, True):
                    for gxp in (False, True):
                        if dvr and gxp and quick:
                            continue
                        for sym in SHO_SYMBOLS:
                            yield {"k": "sho", "nbas": nbas, "omega": omega, "x0": x0, "dvr": dvr, "gxp": gxp, "sym": sym}
                        yield {"k": "sho-commutator", "nbas": nbas, "omega": omega, "x0": x0, "dvr": dvr, "gxp": gxp}
                # copy() keeps the parameters
                yield {"k": "sho-copy", "nbas": nbas, "omega": omega, "x0": x0}
    for nbas in range(2, (5 if quick else 8) + 1):
        for (xi, xf) in ((0.0, 1.0), (-1.5, 2.0)):
            for endpoint in (False, True):
                for dvr in (False, True):
                    for sym in SINE_SYMBOLS:
                        yield {"k": "sine", "nbas": nbas, "xi": xi, "xf": xf, "endpoint": endpoint, "dvr": dvr, "sym": sym}
    for name in copy_objects():
        yield {"k": "copy", "obj": name}
    for s1 in SPIN_SYMBOLS:
        yield {"k": "spin1", "sym": s1}
        for s2 in SPIN_SYMBOLS:
            yield {"k": "spin2", "sym": [s1, s2]}
            if not quick or s1 in ("X", "sigma_+", "iY"):
                for s3 in ("sigma_z", "sigma_-", "Y"):
                    yield {"k": "spin2", "sym": [s1, s2, s3]}
    yield {"k": "pauli"}
    for ndof in (1, 2, 3):
        for i in range(ndof):
            yield {"k": "multi", "cls": "vac", "ndof": ndof, "op": "cre", "i": i}
            yield {"k": "multi", "cls": "vac", "ndof": ndof, "op": "ann", "i": i}
            for j in range(ndof):
                for cls in ("vac", "multi"):
                    yield {"k": "multi", "cls": cls, "ndof": ndof, "op": "hop", "i": i, "j": j}
                    yield {"k": "multi", "cls": cls, "ndof": ndof, "op": "hop-rev", "i": i, "j": j}
    yield {"k": "multi-identity"}
    yield {"k": "simple-electron"}
    for nbas in (1, 2, 4):
        yield {"k": "hops", "nbas": nbas}
    # builders
    for nmol in (1, 2, 3):
        for nmode in (1, 2):
            for diff in (False, True):
                for periodic in (False, True):
                    for jkind in ("quantity", "matrix", "asymmetric", "hermitian-complex"):
                        if jkind in ("asymmetric", "hermitian-complex") and (nmol < 2 or diff):
                            continue
                        if periodic and nmol < 3 and jkind == "quantity":
                            pass
                        for scheme in (1, 2, 3, 4):
                            if quick and nmol == 3 and nmode == 2 and scheme in (1, 3):
                                continue
                            yield {"k": "holstein", "nmol": nmol, "nmode": nmode, "diff": diff, "periodic": periodic, "jkind": jkind, "scheme": scheme}
    for nmodes in (1, 2, 3):
        yield {"k": "sbm", "nmodes": nmodes}
    for cell in ("e", "eb", "s"):
        for ncell in (2, 3, 4):
            for rng_ in range(1, ncell + 1):
                yield {"k": "ti1d", "cell": cell, "ncell": ncell, "range": rng_}
    for unit in ("meV", "eV", "cm^{-1}", "cm-1", "K", "a.u.", "au", "fs", "mev", "ev", "k"):
        for v in (0.37, 1.0, 250.0):
            yield {"k": "quantity", "unit": unit, "v": v}


# ------------------------------------------------------------------------------------------------ oscillator reference

def sho_big(nbas, omega, x0, extra=12):
    N = nbas + extra
    b = ladder(N)
    bd = b.T
    y = (bd + b) / np.sqrt(2 * omega)
    x = y + x0 * np.eye(N)
    p = 1j * np.sqrt(omega / 2) * (bd - b)
    return {"b": b, "bd": bd, "x": x, "p": p, "I": np.eye(N), "N": N}


def proj(M, nbas):
    return M[:nbas, :nbas]


def sho_reference(sym, nbas, omega, x0):
    g = sho_big(nbas, omega, x0)
    b, bd, x, p = g["b"], g["bd"], g["x"], g["p"]
    dx = 1j * p          # p = -i d/dx
    s = sym.replace("partialx", "dx").replace(r"b^\dagger + b", r"b^\dagger+b")
    table = {"b": b, r"b^\dagger": bd, r"b^\dagger+b": bd + b, r"b^\dagger-b": bd - b, "I": g["I"], "n": bd @ b,
             "x": x, "p": p, "dx": dx}
    def power(base, k):
        return np.linalg.matrix_power(table[base], k)
    # second-quantised symbols ignore x0 by documentation (a warning is logged); they are ladder products
    if s in ("b b",):
        return proj(b @ b, nbas)
    if s == r"b^\dagger b^\dagger":
        return proj(bd @ bd, nbas)
    if s == r"b^\dagger b":
        return proj(bd @ b, nbas)
    if s == r"b b^\dagger":
        return proj(b @ bd, nbas)
    toks = s.split(" ")
    M = g["I"]
    for t in toks:
        if "^" in t and t.split("^")[0] in ("x", "p", "dx"):
            base, k = t.split("^")
            M = M @ power(base, int(k))
        else:
            M = M @ table[t]
    return proj(M, nbas)


def run_sho(desc):
    from renormalizer.model import basis as ba
    nbas, omega, x0, dvr, gxp, sym = desc["nbas"], desc["omega"], desc["x0"], desc["dvr"], desc["gxp"], desc["sym"]
    bs = ba.BasisSHO("v", omega, nbas, x0=x0, dvr=dvr, general_xp_power=gxp)
    try:
        got = np.asarray(bs.op_mat(sym))
    except Exception as e:
        return {"nontrivial": True, "outcome": "exception", "viol": [{"sig": f"C16:sho:exception:{sym}:{type(e).__name__}",
                "msg": f"BasisSHO(nbas={nbas},omega={omega},x0={x0},dvr={dvr},general_xp_power={gxp}).op_mat({sym!r}) raised {e!r}"}]}
    s = sym.replace("partialx", "dx")
    second_q = s.replace(r"b^\dagger + b", r"b^\dagger+b") in ("b", "b b", r"b^\dagger", r"b^\dagger b^\dagger", r"b^\dagger b", r"b b^\dagger", r"b^\dagger+b", r"b^\dagger-b", "n", "I")
    ref = sho_reference(sym, nbas, omega, 0.0 if second_q else x0)
    if dvr:
        # DVR representation: unitary transform with the eigenvectors V of the truncated position matrix; powers of x are the
        # DVR definition diag(x_k)^m = V^T (x_trunc)^m V
        xt = sho_reference("x", nbas, omega, x0).real
        w, V = np.linalg.eigh(xt)
        V = np.asarray(bs.dvr_v)      # same matrix up to column signs; use the library's convention for the signs only
        if not close(np.abs(V), np.abs(np.linalg.eigh(xt)[1]), 1e-8) and nbas > 1:
            return {"nontrivial": True, "outcome": "viol", "viol": [{"sig": "C16:sho:dvr-basis", "msg": f"dvr_v is not the eigenbasis of the truncated x (nbas={nbas})"}]}
        toks = s.split(" ")
        only_x = all(t == "x" or t.startswith("x^") for t in toks)
        if second_q:
            pass   # second-quantised symbols are not transformed by the library (documented as occupation-number basis objects)
        elif only_x:
            m = sum(int(t.split("^")[1]) if "^" in t else 1 for t in toks)
            ref = V.T @ np.linalg.matrix_power(xt, m) @ V
        elif all(t == "p" or t.startswith("p^") or t == "dx" or t.startswith("dx^") for t in toks):
            ref = V.T @ ref @ V
        else:
            # mixed x/p products: "DVR variants are unitarily consistent with the plain ones" -- the plain matrix in the rotated basis
            ref = V.T @ ref @ V
    viol = []
    cls = "mixed-xp-product" if s in ("x p", "p x", "x dx", "dx x") else ("second-quantised" if second_q else "xp-power")
    if got.shape != ref.shape or not close(got, ref, TOL, floor=1e-12):
        viol.append({"sig": f"C16:sho:mismatch:{cls}:{s}" + (":dvr" if dvr else ""),
                     "msg": f"BasisSHO(nbas={nbas},omega={omega},x0={x0},dvr={dvr},general_xp_power={gxp}).op_mat({sym!r}) differs from the projected exact operator "
                            f"product by rel {rel_err(got, ref):.2e}\n got={np.round(got, 4).tolist()}\n ref={np.round(ref, 4).tolist()}"})
    return {"nontrivial": bool(np.abs(ref).max() > 0), "outcome": f"sho:{'viol' if viol else 'ok'}", "viol": viol,
            "sample": {"desc": desc}}


def run_sho_comm(desc):
    from renormalizer.model import basis as ba
    nbas, omega, x0, dvr, gxp = desc["nbas"], desc["omega"], desc["x0"], desc["dvr"], desc["gxp"]
    if dvr or nbas < 2:
        return {"skipped": 1, "outcome": "n/a"}
    bs = ba.BasisSHO("v", omega, nbas, x0=x0, dvr=dvr, general_xp_power=gxp)
    xp_ = np.asarray(bs.op_mat("x p"))
    px_ = np.asarray(bs.op_mat("p x"))
    comm = (xp_ - px_)[: nbas - 1, : nbas - 1]
    viol = []
    if not close(comm, 1j * np.eye(nbas - 1), TOL):
        viol.append({"sig": "C16:sho:commutator", "msg": f"op_mat('x p') - op_mat('p x') on the untruncated block is {np.round(np.diag(comm), 6).tolist()} instead of i (nbas={nbas}, omega={omega}, x0={x0})"})
    return {"nontrivial": True, "outcome": "comm", "viol": viol}


# ------------------------------------------------------------------------------------------------ sine DVR reference

def sine_reference(sym, nbas, xi, xf):
    L = xf - xi
    nodes, weights = np.polynomial.legendre.leggauss(200)
    xs = 0.5 * (xf - xi) * nodes + 0.5 * (xf + xi)
    ws = 0.5 * (xf - xi) * weights
    j = np.arange(1, nbas + 1)
    k = j * np.pi / L
    psi = np.sqrt(2 / L) * np.sin(np.outer(k, xs - xi))          # (nbas, nx)
    d1 = np.sqrt(2 / L) * np.cos(np.outer(k, xs - xi)) * k[:, None]
    d2 = -psi * (k ** 2)[:, None]
    s = sym.replace("partialx", "dx")
    if s in ("x x",):
        s = "x^2"
    if s == "x x x":
        s = "x^3"
    if s == "dx dx":
        s = "dx^2"
    def integ(f_left, g_right):
        return (f_left * ws[None, :]) @ g_right.T
    table = {
        "I": integ(psi, psi), "x": integ(psi * xs, psi), "x^1": integ(psi * xs, psi), "x^2": integ(psi * xs ** 2, psi), "x^3": integ(psi * xs ** 3, psi),
        "dx": integ(psi, d1), "dx^2": integ(psi, d2), "p": -1j * integ(psi, d1), "p^2": -integ(psi, d2),
        "x dx": integ(psi * xs, d1), "x^2 p^2": -integ(psi * xs ** 2, d2), "x^2 dx^2": integ(psi * xs ** 2, d2), "x^2 dx": integ(psi * xs ** 2, d1),
        "x p^2": -integ(psi * xs, d2), "x dx^2": integ(psi * xs, d2), "x^3 p^2": -integ(psi * xs ** 3, d2), "x^3 dx^2": integ(psi * xs ** 3, d2),
    }
    return table[s]


def run_sine(desc):
    from renormalizer.model import basis as ba
    nbas, xi, xf, endpoint, dvr, sym = desc["nbas"], desc["xi"], desc["xf"], desc["endpoint"], desc["dvr"], desc["sym"]
    bs = ba.BasisSineDVR("v", nbas, xi, xf, endpoint=endpoint, dvr=dvr)
    if endpoint:
        step = (xf - xi) / (nbas - 1)
        lo, hi = xi - step, xf + step
    else:
        lo, hi = xi, xf
    viol = []
    if abs(bs.xi - lo) > 1e-12 or abs(bs.xf - hi) > 1e-12:
        viol.append({"sig": "C16:sine:grid-range", "msg": f"endpoint={endpoint}: box [{bs.xi},{bs.xf}] expected [{lo},{hi}]"})
    grid = lo + np.arange(1, nbas + 1) * (hi - lo) / (nbas + 1)
    if not np.allclose(bs.dvr_x, grid):
        viol.append({"sig": "C16:sine:grid-points", "msg": f"grid {bs.dvr_x} expected {grid}"})
    if endpoint and (abs(grid[0] - xi) > 1e-12 or abs(grid[-1] - xf) > 1e-12):
        viol.append({"sig": "C16:sine:endpoint", "msg": "first/last grid point are not the requested end points"})
    try:
        got = np.asarray(bs.op_mat(sym))
    except Exception as e:
        return {"nontrivial": True, "outcome": "exception", "viol": viol + [{"sig": f"C16:sine:exception:{sym}:{type(e).__name__}",
                "msg": f"BasisSineDVR(nbas={nbas},[{xi},{xf}],endpoint={endpoint},dvr={dvr}).op_mat({sym!r}) raised {e!r}"}]}
    ref = sine_reference(sym, nbas, lo, hi)
    if dvr:
        V = np.sqrt(2 / (nbas + 1)) * np.sin(np.outer(np.arange(1, nbas + 1), np.arange(1, nbas + 1)) * np.pi / (nbas + 1))
        ref = V.T @ ref @ V
    if not close(got, ref, 1e-7, floor=1e-10):
        viol.append({"sig": f"C16:sine:mismatch:{sym.replace('partialx', 'dx')}" + (":dvr" if dvr else ""),
                     "msg": f"BasisSineDVR(nbas={nbas},[{xi},{xf}],endpoint={endpoint},dvr={dvr}).op_mat({sym!r}) differs from the quadrature of the analytic functions by rel {rel_err(got, ref):.2e}"})
    return {"nontrivial": True, "outcome": f"sine:{'viol' if viol else 'ok'}", "viol": viol, "sample": {"desc": desc}}


# ------------------------------------------------------------------------------------------------ spins / electrons

P_ = {"I": np.eye(2, dtype=complex), "X": np.array([[0, 1], [1, 0]], dtype=complex), "Y": np.array([[0, -1j], [1j, 0]]),
      "Z": np.array([[1, 0], [0, -1]], dtype=complex)}
P_["+"] = (P_["X"] + 1j * P_["Y"]) / 2
P_["-"] = (P_["X"] - 1j * P_["Y"]) / 2
P_["iY"] = 1j * P_["Y"]
ALIAS = {"I": "I", "sigma_x": "X", "X": "X", "x": "X", "sigma_y": "Y", "Y": "Y", "y": "Y", "isigma_y": "iY", "iY": "iY", "iy": "iY",
         "sigma_z": "Z", "Z": "Z", "z": "Z", "sigma_-": "-", "-": "-", "sigma_+": "+", "+": "+"}


def run_spin(desc):
    from renormalizer.model import basis as ba, Op
    b = ba.BasisHalfSpin(0)
    syms = [desc["sym"]] if isinstance(desc["sym"], str) else desc["sym"]
    ref = np.eye(2, dtype=complex)
    for s in syms:
        ref = ref @ P_[ALIAS[s]]
    op = Op(" ".join(syms), [0] * len(syms), 1.0)
    got = np.asarray(b.op_mat(op))
    viol = []
    if not close(got, ref, TOL, floor=1e-12):
        viol.append({"sig": "C16:spin:mismatch", "msg": f"BasisHalfSpin.op_mat({' '.join(syms)!r}) = {got.tolist()} expected ordered product {ref.tolist()}"})
    return {"nontrivial": bool(np.abs(ref).max() > 0), "outcome": "spin", "viol": viol, "sample": {"desc": desc}}


def run_pauli(desc):
    from renormalizer.model import basis as ba
    b = ba.BasisHalfSpin(0)
    X, Y, Z = [np.asarray(b.op_mat(s), dtype=complex) for s in ("sigma_x", "sigma_y", "sigma_z")]
    viol = []
    checks = {"XY=iZ": close(X @ Y, 1j * Z), "YZ=iX": close(Y @ Z, 1j * X), "ZX=iY": close(Z @ X, 1j * Y), "X^2=1": close(X @ X, np.eye(2)),
              "anticommute": close(X @ Y + Y @ X, np.zeros((2, 2)), floor=1.0), "hermitian": close(Y, Y.conj().T),
              "sigma_+": close(np.asarray(b.op_mat("sigma_+")), (X + 1j * Y) / 2), "sigma_-": close(np.asarray(b.op_mat("sigma_-")), (X - 1j * Y) / 2)}
    for k, ok in checks.items():
        if not ok:
            viol.append({"sig": f"C16:pauli:{k}", "msg": f"Pauli relation {k} violated"})
    return {"nontrivial": True, "outcome": "pauli", "viol": viol}


def run_multi_identity(desc):
    """the identity spelled over one, two or all dofs of a multi-electron site, with a prefactor"""
    from renormalizer.model import Op, basis as ba
    viol = []
    for cls in ("plain", "vac"):
        for ndof in (2, 3):
            dofs = [f"e{i}" for i in range(ndof)]
            b = ba.BasisMultiElectron(dofs, [1] * ndof) if cls == "plain" else ba.BasisMultiElectronVac(dofs)
            for k in range(1, ndof + 1):
                for fac in (1.0, 0.5, -2.0, 0.3 + 0.4j):
                    for how, op in (("Op('I ...')", Op(" ".join(["I"] * k), dofs[:k], fac)), ("Op.identity * c", Op.identity(dofs[:k]) * fac)):
                        try:
                            got = np.asarray(b.op_mat(op))
                        except ValueError as e:
                            if "not supported" in str(e):
                                continue      # explicit refusal (the plain class accepts identities over at most two dofs)
                            viol.append({"sig": "C16:multi:identity:exception:ValueError", "msg": f"{cls} ndof={ndof}: op_mat({op!r}) raised {e!r}"})
                            continue
                        except Exception as e:
                            viol.append({"sig": f"C16:multi:identity:exception:{type(e).__name__}", "msg": f"{cls} ndof={ndof}: op_mat({op!r}) raised {e!r}"})
                            continue
                        if got.shape != (b.nbas, b.nbas) or not np.allclose(got, fac * np.eye(b.nbas)):
                            viol.append({"sig": f"C16:multi:identity-with-prefactor:{cls}", "msg": f"{cls} ndof={ndof}: op_mat of {how} over {k} dofs with factor {fac} is not {fac} x identity (diagonal {np.diag(got)[:2]})"})
    seen, out = set(), []
    for v in viol:
        if v["sig"] not in seen:
            seen.add(v["sig"])
            out.append(v)
    return {"nontrivial": True, "outcome": "multi-identity", "viol": out, "sample": {"desc": desc}}


def run_multi(desc):
    from renormalizer.model import basis as ba, Op
    ndof, cls, op = desc["ndof"], desc["cls"], desc["op"]
    dofs = [("e", i) for i in range(ndof)]
    if cls == "vac":
        b = ba.BasisMultiElectronVac(dofs)
        off = 1
        dim = ndof + 1
    else:
        b = ba.BasisMultiElectron(dofs, [0] * ndof)
        off = 0
        dim = ndof
    i = desc["i"]
    ref = np.zeros((dim, dim))
    if op == "cre":
        o = Op(r"a^\dagger", dofs[i])
        ref[i + off, 0] = 1
    elif op == "ann":
        o = Op("a", dofs[i])
        ref[0, i + off] = 1
    elif op == "hop":
        j = desc["j"]
        o = Op(r"a^\dagger a", [dofs[i], dofs[j]], qn=[0, 0] if cls == "multi" else None)
        ref[i + off, j + off] = 1
    else:
        j = desc["j"]
        o = Op(r"a a^\dagger", [dofs[i], dofs[j]], qn=[0, 0] if cls == "multi" else None)
        ref[j + off, i + off] = 1          # a_i a^dagger_j written in reversed order denotes |j><i| in the one-particle space
    got = np.asarray(b.op_mat(o))
    viol = []
    if got.shape != ref.shape or not np.array_equal(got, ref):
        viol.append({"sig": f"C16:multi-electron:{cls}:{op}", "msg": f"{type(b).__name__}({ndof} dofs).op_mat({o}) = {got.tolist()} expected single 1: {ref.tolist()}"})
    if np.count_nonzero(got) != 1:
        viol.append({"sig": f"C16:multi-electron:{cls}:{op}:not-single-1", "msg": f"{got.tolist()}"})
    # sigmaqn documented: vacuum 0, every dof 1
    if cls == "vac" and b.sigmaqn.ravel().tolist() != [0] + [1] * ndof:
        viol.append({"sig": "C16:multi-electron:vac:sigmaqn", "msg": str(b.sigmaqn.tolist())})
    return {"nontrivial": True, "outcome": "multi", "viol": viol, "sample": {"desc": desc}}


def run_simple_electron(desc):
    from renormalizer.model import basis as ba
    b = ba.BasisSimpleElectron(0)
    ad, a, n, I = [np.asarray(b.op_mat(s)) for s in (r"a^\dagger", "a", r"a^\dagger a", "I")]
    viol = []
    if not (np.array_equal(ad, np.array([[0, 0], [1, 0]])) and np.array_equal(a, ad.T) and np.array_equal(n, ad @ a) and np.array_equal(I, np.eye(2))
            and np.array_equal(a @ ad + ad @ a, np.eye(2))):
        viol.append({"sig": "C16:simple-electron", "msg": f"a^dagger={ad.tolist()} a={a.tolist()} n={n.tolist()}"})
    if b.sigmaqn.ravel().tolist() != [0, 1]:
        viol.append({"sig": "C16:simple-electron:sigmaqn", "msg": str(b.sigmaqn.tolist())})
    return {"nontrivial": True, "outcome": "se", "viol": viol}


def run_hops(desc):
    from renormalizer.model import basis as ba
    n = desc["nbas"]
    b = ba.BasisHopsBoson(0, n)
    cre = np.asarray(b.op_mat(r"\tilde{b}^\dagger"))
    ann = np.asarray(b.op_mat(r"\tilde{b}"))
    num = np.asarray(b.op_mat(r"b^\dagger b"))
    rc, ra = np.zeros((n, n)), np.zeros((n, n))
    for k in range(n - 1):
        rc[k + 1, k] = k + 1
        ra[k, k + 1] = 1
    viol = []
    if not (np.array_equal(cre, rc) and np.array_equal(ann, ra) and np.array_equal(num, np.diag(np.arange(n)))):
        viol.append({"sig": "C16:hops-boson", "msg": f"nbas={n}: cre={cre.tolist()} ann={ann.tolist()}"})
    return {"nontrivial": n > 1, "outcome": "hops", "viol": viol}


# ------------------------------------------------------------------------------------------------ builders

def osc(nb, omega, extra=12):
    g = sho_big(nb, omega, 0.0, extra)
    x, p = g["x"], g["p"]
    return {"x": proj(x, nb).real, "x2": proj(x @ x, nb).real, "p2": proj(p @ p, nb).real}


def run_holstein(desc, seed):
    from renormalizer.model import HolsteinModel, Mol, Phonon
    from renormalizer.mps import Mpo
    from renormalizer.utils import Quantity
    nmol, nmode, diff, periodic, jkind, scheme = desc["nmol"], desc["nmode"], desc["diff"], desc["periodic"], desc["jkind"], desc["scheme"]
    rs = env.rng(seed, ("holstein", nmol, nmode, diff))
    om0 = [0.6 + 0.35 * k for k in range(nmode)]
    om1 = [o * (1.25 if diff else 1.0) for o in om0]
    dis = [0.8 - 0.3 * k for k in range(nmode)]
    nb = 2
    mols = []
    eloc = [0.2 + 0.15 * i for i in range(nmol)]
    for i in range(nmol):
        phs = [Phonon([Quantity(om0[k]), Quantity(om1[k])], [Quantity(0), Quantity(dis[k])], nb) for k in range(nmode)]
        mols.append(Mol(Quantity(eloc[i]), phs))
    J0 = 0.37
    if jkind == "quantity":
        J = Quantity(J0)
        Jm = np.zeros((nmol, nmol))
        for i in range(nmol - 1):
            Jm[i, i + 1] = Jm[i + 1, i] = J0
        if periodic and nmol > 1:
            Jm[0, -1] = Jm[-1, 0] = J0
    else:
        Jm = np.zeros((nmol, nmol))
        for i in range(nmol):
            for j in range(i + 1, nmol):
                Jm[i, j] = Jm[j, i] = 0.2 + 0.1 * (i + 2 * j)
        if periodic and nmol > 1 and Jm[0, -1] == 0:
            Jm[0, -1] = Jm[-1, 0] = 0.11
        if jkind == "asymmetric":
            # an explicit coupling matrix that is not symmetric (non-reciprocal hopping): the documented Hamiltonian is sum_ij J_ij a+_i a_j
            Jm = Jm * (1.0 + 0.5 * np.triu(np.ones((nmol, nmol)), 1))
        elif jkind == "hermitian-complex":
            ph_ = np.triu(np.array([[0.3 * (i + 1) + 0.2 * j for j in range(nmol)] for i in range(nmol)]), 1)
            Jm = Jm * np.exp(1j * (ph_ - ph_.T))
        J = Jm.copy()
    try:
        model = HolsteinModel(mols, J, scheme=scheme, periodic=periodic)
        H = Mpo(model).todense()
    except AssertionError:
        return {"rejected": 1, "outcome": "rejected"}
    # ---- independent assembly in the exciton-number sectors 0 and 1 (shared by all schemes), ordering independent: spectra
    o = [osc(nb, om0[k]) for k in range(nmode)]
    nvib = nb ** (nmol * nmode)
    def vib_op(imol, k, M):
        mats = [np.eye(nb)] * (nmol * nmode)
        mats = list(mats)
        mats[imol * nmode + k] = M
        return kron_all(mats)
    Hvib = np.zeros((nvib, nvib))
    for i in range(nmol):
        for k in range(nmode):
            Hvib += vib_op(i, k, 0.5 * o[k]["p2"] + 0.5 * om0[k] ** 2 * o[k]["x2"])
    H0 = Hvib                                   # zero-exciton sector
    H1 = np.zeros((nmol * nvib, nmol * nvib), dtype=complex if np.iscomplexobj(Jm) else float)     # one-exciton sector: |i> x vib
    for i in range(nmol):
        e0 = sum(0.5 * om1[k] ** 2 * dis[k] ** 2 for k in range(nmode))
        hi = Hvib + (eloc[i] + e0) * np.eye(nvib)
        for k in range(nmode):
            hi = hi + vib_op(i, k, 0.5 * (om1[k] ** 2 - om0[k] ** 2) * o[k]["x2"] - om1[k] ** 2 * dis[k] * o[k]["x"])
        H1[i * nvib:(i + 1) * nvib, i * nvib:(i + 1) * nvib] = hi
        for j in range(nmol):
            if i != j:
                H1[i * nvib:(i + 1) * nvib, j * nvib:(j + 1) * nvib] = Jm[i, j] * np.eye(nvib)
    sig = [np.asarray(b.sigmaqn) for b in model.basis]
    viol = []
    # direction of the couplings: <e_i, no vibration| H |e_j, no vibration> = J_ij for i != j (a spectrum cannot tell J from its transpose)
    try:
        dims_ = [b.nbas for b in model.basis]
        edofs = list(model.e_dofs)
        def idx_of(i):
            loc = []
            for b in model.basis:
                if b.is_phonon:
                    loc.append(0)
                elif len(b.dofs) > 1:
                    loc.append(1 + list(b.dofs).index(edofs[i]))
                else:
                    loc.append(1 if b.dofs[0] == edofs[i] else 0)
            return int(np.ravel_multi_index(loc, dims_))
        Hm = np.asarray(H)
        for i in range(nmol):
            for j in range(nmol):
                if i != j and abs(Hm[idx_of(i), idx_of(j)] - Jm[i, j]) > 1e-10:
                    viol.append({"sig": f"C16:holstein:coupling-direction:{jkind}", "msg": f"{desc}: <e{i},0|H|e{j},0> = {Hm[idx_of(i), idx_of(j)]} but J[{i},{j}] = {Jm[i, j]}"})
                    break
            else:
                continue
            break
    except Exception as e:
        viol.append({"sig": f"C16:holstein:coupling-direction:exception:{type(e).__name__}", "msg": f"{desc}: {e!r}"})
    for nex, Href in ((0, H0), (1, H1)):
        mask = sector_projector(sig, [nex])
        Hs = H[np.ix_(mask, mask)]
        if Hs.shape != Href.shape:
            viol.append({"sig": "C16:holstein:sector-dimension", "msg": f"{desc}: sector {nex} has dimension {Hs.shape[0]} expected {Href.shape[0]}"})
            continue
        if not close(Hs, Hs.conj().T, 1e-10) and jkind != "asymmetric":
            viol.append({"sig": "C16:holstein:not-hermitian", "msg": f"{desc}: sector {nex}"})
        w1 = np.linalg.eigvalsh((Hs + Hs.conj().T) / 2)
        if jkind == "asymmetric" and nex == 1:
            continue       # not Hermitian by construction: judged through the matrix elements above
        w2 = np.linalg.eigvalsh(Href)
        if not np.allclose(w1, w2, atol=1e-9):
            viol.append({"sig": f"C16:holstein:spectrum:scheme{scheme}", "msg": f"{desc}: spectrum of the built Hamiltonian in the {nex}-exciton sector differs from the documented Hamiltonian by {np.abs(w1 - w2).max():.2e}"})
    # ---- documented site order
    kinds = [type(b).__name__ for b in model.basis]
    if scheme < 4:
        exp = []
        for i in range(nmol):
            exp += ["BasisSimpleElectron"] + ["BasisSHO"] * nmode
    else:
        nleft = (nmol // 2) * nmode
        exp = ["BasisSHO"] * (nmol * nmode)
        exp.insert(nleft, "BasisMultiElectronVac")
    if kinds != exp:
        viol.append({"sig": "C16:holstein:site-order", "msg": f"{desc}: basis order {kinds} expected {exp}"})
    return {"nontrivial": len(model.basis) >= 2, "outcome": f"holstein:{'viol' if viol else 'ok'}", "viol": viol, "sample": {"desc": desc, "nsite": len(model.basis)}}


def run_sbm(desc, seed):
    from renormalizer.model import SpinBosonModel, Phonon
    from renormalizer.mps import Mpo
    from renormalizer.utils import Quantity
    nm = desc["nmodes"]
    oms = [0.5 + 0.4 * k for k in range(nm)]
    ds = [0.7 - 0.2 * k for k in range(nm)]
    nb = 3
    phs = [Phonon.simple_phonon(Quantity(oms[k]), Quantity(ds[k]), nb) for k in range(nm)]
    eps, delta = 0.31, 0.47
    model = SpinBosonModel(Quantity(eps), Quantity(delta), phs)
    H = Mpo(model).todense()
    dims = [2] + [nb] * nm
    def site(i, Mx):
        mats = [np.eye(d) for d in dims]
        mats[i] = Mx
        return kron_all(mats)
    Z, X = P_["Z"].real, P_["X"].real
    ref = eps * site(0, Z) + delta * site(0, X)
    for k in range(nm):
        o = osc(nb, oms[k])
        ref = ref + site(k + 1, 0.5 * o["p2"] + 0.5 * oms[k] ** 2 * o["x2"]) + (-oms[k] ** 2 * ds[k]) * site(0, Z) @ site(k + 1, o["x"])
    viol = []
    if not close(H, ref, TOL):
        viol.append({"sig": "C16:spin-boson:hamiltonian", "msg": f"{nm} modes: rel err {rel_err(H, ref):.2e}"})
    return {"nontrivial": True, "outcome": "sbm", "viol": viol, "sample": {"desc": desc}}


def run_ti1d(desc, seed):
    from renormalizer.model import TI1DModel, Op, basis as ba
    from renormalizer.mps import Mpo
    cell, ncell, rng_ = desc["cell"], desc["ncell"], desc["range"]
    if cell == "e":
        basis = [ba.BasisSimpleElectron("e")]
        local = [Op(r"a^\dagger a", "e", 0.3)]
        nonlocal_ = [Op(r"a^\dagger a", [(0, "e"), (rng_, "e")], 0.21), Op(r"a^\dagger a", [(rng_, "e"), (0, "e")], 0.21)]
    elif cell == "eb":
        basis = [ba.BasisSimpleElectron("e"), ba.BasisSHO("v", 0.9, 2, x0=0.4)]
        local = [Op(r"a^\dagger a", "e", 0.3), Op("p^2", "v", 0.5), Op("x^2", "v", 0.5 * 0.81), Op(r"a^\dagger a", "e") * Op("x", "v") * 0.17]
        nonlocal_ = [Op(r"a^\dagger a", [(0, "e"), (rng_, "e")], 0.21), Op(r"a^\dagger a", [(rng_, "e"), (0, "e")], 0.21),
                     Op("x x", [(0, "v"), (rng_, "v")], 0.05)]
    else:
        basis = [ba.BasisHalfSpin("s")]
        local = [Op("sigma_z", "s", 0.4)]
        nonlocal_ = [Op("sigma_x sigma_x", [(0, "s"), (rng_, "s")], 0.3), Op("sigma_+ sigma_-", [(1, "s"), (1 + rng_, "s")], 0.2)]
    model = TI1DModel(basis, local, nonlocal_, ncell)
    H = Mpo(model).todense()
    # independent assembly: site index = cell * len(basis) + position in the cell
    pos = {b.dofs[0]: i for i, b in enumerate(basis)}
    nper = len(basis)
    dims = [b.nbas for _ in range(ncell) for b in basis]
    D = int(np.prod(dims))
    ref = np.zeros((D, D), dtype=complex)
    def term_dense(op, cells):
        # op: Op with dofs d_k ; cells[k] = absolute cell of factor k.  group per site keeping the written order
        per_site = {}
        for sym, dof, c in zip(op.split_symbol, op.dofs, cells):
            per_site.setdefault(c * nper + pos[dof], []).append(sym)
        mats = [np.eye(d, dtype=complex) for d in dims]
        for s, syms in per_site.items():
            b = basis[s % nper]
            mats[s] = np.asarray(b.op_mat(Op(" ".join(syms), [b.dofs[0]] * len(syms))), dtype=complex)
        return op.factor * kron_all(mats)
    for i in range(ncell):
        for op in local:
            ref += term_dense(op, [i] * len(op.dofs))
        for op in nonlocal_:
            bare = Op(op.symbol, [d[1] for d in op.dofs], op.factor)
            ref += term_dense(bare, [(i + d[0]) % ncell for d in op.dofs])
    viol = []
    if not close(H, ref, TOL):
        viol.append({"sig": f"C16:ti1d:hamiltonian:{cell}", "msg": f"{desc}: rel err {rel_err(H, ref):.2e}"})
    # every cell carries the parameters of the unit-cell basis (shifted origin etc.)
    for i, b in enumerate(model.basis):
        src = basis[i % nper]
        for attr in ("omega", "x0", "nbas"):
            if hasattr(src, attr) and getattr(src, attr) != getattr(b, attr):
                viol.append({"sig": "C16:ti1d:basis-parameters", "msg": f"cell basis {i}: {attr}={getattr(b, attr)} differs from the unit cell's {getattr(src, attr)}"})
    return {"nontrivial": True, "outcome": "ti1d", "viol": viol, "sample": {"desc": desc}}


def run_sho_copy(desc):
    from renormalizer.model import basis as ba
    b = ba.BasisSHO("v", desc["omega"], desc["nbas"], x0=desc["x0"])
    c = b.copy("w")
    viol = []
    for sym in ("x", "x^2", "p^2"):
        if not close(np.asarray(c.op_mat(sym)), np.asarray(b.op_mat(sym)), TOL, floor=1e-12):
            viol.append({"sig": "C16:sho:copy", "msg": f"BasisSHO.copy() changes op_mat({sym!r}) (nbas={desc['nbas']}, x0={desc['x0']})"})
    if c.dof != "w":
        viol.append({"sig": "C16:sho:copy-dof", "msg": "copy(new_dof) did not rename"})
    return {"nontrivial": True, "outcome": "copy", "viol": viol}


def run_quantity(desc):
    from renormalizer.utils import Quantity
    from scipy.constants import physical_constants as c
    unit, v = desc["unit"], desc["v"]
    q = Quantity(v, unit)
    au = q.as_au()
    back = Quantity(au).as_unit(unit).value
    viol = []
    if abs(back - v) > 1e-12 * abs(v):
        viol.append({"sig": "C16:quantity:round-trip", "msg": f"{v} {unit} -> {au} a.u. -> {back} {unit}"})
    ha_ev = c["Hartree energy in eV"][0]
    ref = {"mev": v / (ha_ev * 1e3), "ev": v / ha_ev, "cm^{-1}": v * 100 * c["inverse meter-hertz relationship"][0] / c["hartree-hertz relationship"][0],
           "cm-1": v * 100 * c["inverse meter-hertz relationship"][0] / c["hartree-hertz relationship"][0], "k": v * c["kelvin-hartree relationship"][0],
           "a.u.": v, "au": v, "fs": v * 1e-15 / c["atomic unit of time"][0]}[unit.lower()]
    if abs(au - ref) > 1e-9 * abs(ref):
        viol.append({"sig": "C16:quantity:conversion", "msg": f"{v} {unit} = {au} a.u., CODATA gives {ref}"})
    return {"nontrivial": True, "outcome": "quantity", "viol": viol}


def repeat_objects():
    """name -> factory of one basis object whose op_mat is then asked for whole rounds of symbols"""
    from renormalizer.model import basis as ba
    R = {}
    for dvr in (False, True):
        R[f"sho:dvr={dvr}"] = (lambda dvr=dvr: ba.BasisSHO("v", 1.3, 4, x0=0.7, dvr=dvr), SHO_SYMBOLS)
        for endpoint in (False, True):
            R[f"sine:dvr={dvr}:endpoint={endpoint}"] = (lambda dvr=dvr, endpoint=endpoint: ba.BasisSineDVR("q", 4, -1.5, 2.0, endpoint=endpoint, dvr=dvr),
                                                         list(SINE_SYMBOLS) + ["x^4", "x^3", "x x x x", "x^6"])
    R["halfspin"] = (lambda: ba.BasisHalfSpin("s"), SPIN_SYMBOLS)
    R["multi"] = (lambda: ba.BasisMultiElectron(["e0", "e1", "e2"], [1, 1, 1]), None)
    R["multivac"] = (lambda: ba.BasisMultiElectronVac(["e0", "e1"]), None)
    return R


def run_repeat(desc):
    """one basis OBJECT is asked for its matrices in several rounds (every symbol, three times, in two orders, also as Op with a factor):
    every answer must equal the answer of a freshly constructed object -- anything the object remembers between calls shows up here"""
    from renormalizer.model import Op
    factory, symbols = repeat_objects()[desc["obj"]]
    viol = {}
    n = 0
    if symbols is None:
        b0 = factory()
        symbols = [Op(r"a^\dagger a", [d1, d2]) for d1 in b0.dofs for d2 in b0.dofs]
        if desc["obj"] == "multivac":
            symbols += [Op(r"a^\dagger", d) for d in b0.dofs] + [Op("a", d) for d in b0.dofs]
    def ask(b, sym, factor=None):
        if isinstance(sym, Op):
            return np.asarray(b.op_mat(sym if factor is None else sym * factor))
        return np.asarray(b.op_mat(sym if factor is None else Op(sym, b.dofs[0], factor)))
    fresh = {}
    accepted = []
    for sym in symbols:
        try:
            fresh[str(sym)] = ask(factory(), sym)
            accepted.append(sym)
        except Exception:
            continue          # symbols this basis does not know are not part of the rounds
    obj = factory()
    for rnd, order in enumerate((accepted, accepted[::-1], accepted, accepted)):
        for sym in order:
            n += 1
            fac = None if rnd < 3 else 0.5
            try:
                got = ask(obj, sym, fac)
            except Exception as e:
                sig = f"C16:repeat:exception:{desc['obj'].split(':')[0]}:{type(e).__name__}"
                viol.setdefault(sig, {"sig": sig, "msg": f"{desc['obj']}: round {rnd + 1}, op_mat({sym}) raised {e!r} although a fresh object accepts it"})
                continue
            ref = fresh[str(sym)] * (1 if fac is None else fac)
            if got.shape != ref.shape or not np.allclose(got, ref, atol=1e-12 * max(1.0, np.abs(ref).max())):
                sig = f"C16:repeat:{desc['obj'].split(':')[0]}:round{min(rnd + 1, 2)}"
                viol.setdefault(sig, {"sig": sig, "msg": f"{desc['obj']}: in round {rnd + 1} op_mat({sym}) of the SAME basis object differs from the matrix a fresh object returns by {np.abs(got - ref).max() if got.shape == ref.shape else 'shape'}"})
    return {"nontrivial": n > 0, "counters": {"op_mat_calls": n}, "outcome": "repeat:ok" if not viol else "repeat:viol", "viol": list(viol.values()), "sample": {"desc": desc, "symbols": len(accepted)}}


def copy_objects():
    """name -> (factory, symbols): every basis class with every constructor flag that changes its matrices or labels"""
    from renormalizer.model import basis as ba
    O = {}
    for dvr in (False, True):
        for gxp in (False, True):
            O[f"BasisSHO(x0=0.7,dvr={dvr},general_xp_power={gxp})"] = (lambda d, dvr=dvr, gxp=gxp: ba.BasisSHO(d, 1.3, 4, x0=0.7, dvr=dvr, general_xp_power=gxp), ("x", "x^2", "p", "p^2", "x p"))
    for endpoint in (False, True):
        for quad in (False, True):
            for dvr in (False, True):
                O[f"BasisSineDVR(endpoint={endpoint},quadrature={quad},dvr={dvr})"] = (
                    lambda d, e=endpoint, q=quad, v=dvr: ba.BasisSineDVR(d, 4, -1.0, 2.0, endpoint=e, quadrature=q, dvr=v), ("x", "x^2", "dx", "p^2", "x dx"))
    O["BasisSimpleElectron()"] = (lambda d: ba.BasisSimpleElectron(d), ("a", r"a^\dagger a"))
    O["BasisSimpleElectron(sigmaqn=[0,2])"] = (lambda d: ba.BasisSimpleElectron(d, sigmaqn=[0, 2]), ("a", r"a^\dagger a"))
    O["BasisSimpleElectron(sigmaqn=two components)"] = (lambda d: ba.BasisSimpleElectron(d, sigmaqn=[[0, 0], [1, 0]]), ("a", r"a^\dagger a"))
    O["BasisHalfSpin()"] = (lambda d: ba.BasisHalfSpin(d), ("sigma_x", "sigma_z"))
    O["BasisHalfSpin(sigmaqn=[0,1])"] = (lambda d: ba.BasisHalfSpin(d, sigmaqn=[0, 1]), ("sigma_x", "sigma_z"))
    O["BasisHopsBoson(nbas=3)"] = (lambda d: ba.BasisHopsBoson(d, 3), ("I",))
    O["BasisDummy(nbas=2,sigmaqn=[0,1])"] = (lambda d: ba.BasisDummy(d, 2, sigmaqn=[0, 1]), ("I",))
    return O


def run_copy(desc):
    """copy(new_dof): 'a copy of the basis set with new DoF name' -- same size, same labels, same matrices for every supported symbol"""
    fac, syms = copy_objects()[desc["obj"]]
    b = fac("v")
    viol = []
    try:
        c = b.copy("w")
    except Exception as e:
        return {"nontrivial": True, "outcome": "copy:exception", "viol": [{"sig": f"C16:copy:exception:{type(e).__name__}", "msg": f"{desc['obj']}.copy('w') raised {e!r}"}]}
    if c.dof != "w":
        viol.append({"sig": "C16:copy:dof", "msg": f"{desc['obj']}.copy('w') has dof {c.dof!r}"})
    if c.nbas != b.nbas or not np.array_equal(np.asarray(c.sigmaqn), np.asarray(b.sigmaqn)):
        viol.append({"sig": "C16:copy:labels", "msg": f"{desc['obj']}.copy('w'): nbas {b.nbas} -> {c.nbas}, sigmaqn {np.asarray(b.sigmaqn).tolist()} -> {np.asarray(c.sigmaqn).tolist()}"})
    for sym in syms:
        try:
            mb = np.asarray(b.op_mat(sym))
        except Exception:
            continue
        try:
            mc = np.asarray(c.op_mat(sym))
        except Exception as e:
            viol.append({"sig": "C16:copy:matrices", "msg": f"{desc['obj']}.copy('w').op_mat({sym!r}) raised {e!r}, the original returns a matrix"})
            continue
        if mb.shape != mc.shape or not close(mc, mb, TOL, floor=1e-12):
            viol.append({"sig": "C16:copy:matrices", "msg": f"{desc['obj']}.copy('w').op_mat({sym!r}) differs from the original's by rel {rel_err(mc, mb) if mb.shape == mc.shape else float('inf'):.2e}"})
            break
    return {"nontrivial": True, "outcome": f"copy:{'viol' if viol else 'ok'}", "viol": viol, "sample": {"desc": desc}}


def run_case(desc, seed):
    k = desc["k"]
    if k == "copy":
        return run_copy(desc)
    if k == "repeat":
        return run_repeat(desc)
    if k == "sho":
        return run_sho(desc)
    if k == "sho-commutator":
        return run_sho_comm(desc)
    if k == "sho-copy":
        return run_sho_copy(desc)
    if k == "sine":
        return run_sine(desc)
    if k in ("spin1", "spin2"):
        return run_spin(desc)
    if k == "pauli":
        return run_pauli(desc)
    if k == "multi-identity":
        return run_multi_identity(desc)
    if k == "multi":
        return run_multi(desc)
    if k == "simple-electron":
        return run_simple_electron(desc)
    if k == "hops":
        return run_hops(desc)
    if k == "holstein":
        return run_holstein(desc, seed)
    if k == "sbm":
        return run_sbm(desc, seed)
    if k == "ti1d":
        return run_ti1d(desc, seed)
    if k == "quantity":
        return run_quantity(desc)
    raise ValueError(k)
