"""C13 -- operations return new objects and never disturb the state of their inputs.  (E2: derive / mutate / observe programs)

Program shape (all of them are executed, for every m, m', mu in the alphabets, every mutation target):
      snapshot(a, x, H, P)                       a, x states; H Hamiltonian operator; P charged operator
      b = m(a)                                   -> every other live object must equal its snapshot
      [c = m'(b)]                                -> every other live object must equal its snapshot
      mu(target)  for target in {a, b, c}        -> every NON-target object must equal its snapshot
      probe: a deep copy of every non-target object is canonicalised and losslessly compressed -> still the snapshot
m / m' range over the public state-producing and measuring methods of chain states, operators and density operators
(evolve in every scheme in real and imaginary time with zero / non-zero offset, evolve_exact, apply, contract, add, sub,
scale, conj, conj_trans, copy, to_complex, MpDm.from_mps, expectation(s), occupations, reduced density matrices, entropies,
distance, dot, norm, variational_compress, expand_bond_dimension, optimisation);  mu over the public in-place mutators
(scale(inplace), canonicalise, truncating compress, normalize, item assignment of a site tensor, coeff assignment, move_qnidx).
The snapshot is the dense vector/matrix x prefactor together with qntot.  Objects are created without the library's copy().
Documented exemptions are encoded: the optimiser may change its initial guess; add/distance may move the prefactor into
the tensors (represented vector unchanged).
"""
import copy
import functools
import itertools

import numpy as np

from mc import env  # noqa: F401
from mc import machine as M
from mc.chains import Chain
from mc.ref.dense import close, rel_err

ID = "C13"
LEVEL = "model_checking"
RULE = ("a case = (family, m, m' or none); inside it every mutation mu is applied to every possible target on a fresh replay of the program "
        "(states = snapshots of all live objects after each step, transitions = method calls); non-trivial = the derivation ran "
        "(was not refused) and produced/observed an object with a bond > 1; distinct = distinct (family, m, m')")
ASSUMPTIONS = [
    "snapshot = todense() x coeff and qntot; gauge changes of an input that keep the represented vector are allowed (evolve/add re-gauge or absorb the prefactor)",
    "mutations are the library's public in-place mutators and item assignment; raw writes into numpy buffers are not a public operation and are not used",
    "branching replays the program on fresh objects (deterministic seeded construction); the library's copy() is only used as an action under test",
    "explicit refusals (NotImplementedError / precondition asserts / ValueError with the library's own message) disable the step",
]
HORIZON_S = 600
HEAVY_CASES = True
TOL = 1e-9


def COST(desc):
    w = 1
    for k in ("m", "m2"):
        v = desc.get(k) or ""
        if "evolve" in v or "optimize" in v or "expand" in v or "variational" in v:
            w += 5
    return w


def BOUND(tier):
    return {"families": ["eph n=3 sector 1 (generic Model)", "holstein 2 molecules x 1 mode (HolsteinModel, needed by evolve_exact)", "the same with the state as a complex density operator (holstein-mpdm)"] +
            ([] if tier == "quick" else ["elec n=4 sector 2", "two-component n=3 sector (1,1)"]),
            "second_derivation": "state-producing subset" if tier == "quick" else "all state-producing methods"}


# ----------------------------------------------------------------------------------------------- contexts

class Ctx:
    pass


@functools.lru_cache(maxsize=8)
def holstein_model():
    from renormalizer.model import HolsteinModel, Mol, Phonon
    from renormalizer.utils import Quantity
    ph = Phonon.simple_phonon(Quantity(0.7), Quantity(0.9), 3)
    mols = [Mol(Quantity(0.3), [ph]), Mol(Quantity(0.5), [ph])]
    return HolsteinModel(mols, Quantity(0.4), scheme=2)


def make_ctx(fam, seed):
    """fresh objects, deterministic in (fam, seed); never uses library copy()"""
    from renormalizer.mps import Mps, Mpo, MpDm
    from renormalizer.utils import Quantity
    c = Ctx()
    c.fam = fam
    loaded = fam.endswith("-loaded")
    as_dm = fam.endswith("-mpdm")
    fam = fam.replace("-loaded", "").replace("-mpdm", "")
    if fam == "holstein":
        model = holstein_model()
        c.model = model
        env.reseed(seed, ("c13", fam, "a"))
        c.a = Mps.random(model, 1, 4, percent=1.0)
        env.reseed(seed, ("c13", fam, "x"))
        c.x = Mps.random(model, 1, 3, percent=1.0)
        c.H = Mpo(model)
        c.Hoff = Mpo(model, offset=Quantity(0.37))
        c.P = Mpo.onsite(model, r"a^\dagger")
        c.sector = [1]
    else:
        name, n, sec = {"eph": ("eph", 3, [1]), "elec": ("elec", 4, [2]), "two": ("two", 3, [1, 1])}[fam]
        ch = Chain(name, n, seed)
        c.model = ch.model
        c.a = ch.random_mps(sec, 8 if name == "two" else 4, "a")
        c.x = ch.random_mps(sec, 8 if name == "two" else 3, "x", cplx=True)
        c.H = ch.mpo_neutral()
        c.Hoff = Mpo(ch.new_model(), ch.h_terms, offset=Quantity(0.37))
        c.P = ch.mpo_raising()
        c.sector = sec
    # two opposite complete sweeps bring the bond dimensions of `a` within the physical limits: the mean-field TDVP drivers
    # abort on over-complete bonds (a C09 finding).  `x` keeps its over-complete bonds.  Snapshots are taken afterwards.
    c.a.canonicalise()
    c.a.canonicalise()
    if as_dm:
        # the state under test is a density operator with a history: built from a pure state, then given a phase (what a complex
        # operator, a real-time step or to_complex() leave behind: complex tensors and a complex prefactor)
        c.a = MpDm.from_mps(c.a).scale(np.exp(0.3j))
        c.x = MpDm.from_mps(c.x)
    if loaded:
        # the state under test went through dump + load (a complex state with a complex prefactor): a loaded object must behave
        # like any other object in every program below
        import os
        import shutil
        import tempfile
        a = c.a.to_complex()
        a = a.scale(np.exp(0.3j))
        a.coeff = np.exp(-0.2j) * 0.9
        d = tempfile.mkdtemp(prefix="c13l_")
        try:
            fn = os.path.join(d, "a.npz")
            a.dump(fn)
            c.a = type(a).load(c.model, fn)
        finally:
            shutil.rmtree(d, ignore_errors=True)
        c.a.compress_config = a.compress_config.copy()
        c.a.evolve_config = a.evolve_config.copy()
    return c


def snap(obj):
    return (M.dense_of(obj).copy(), np.asarray(obj.qntot).copy())


def same(obj, s, tol=TOL):
    d = M.dense_of(obj)
    if not close(d, s[0], tol):
        return f"represented object changed (rel {rel_err(d, s[0]):.2e})"
    if np.any(np.asarray(obj.qntot) != s[1]):
        return f"qntot changed {s[1].tolist()} -> {np.asarray(obj.qntot).tolist()}"
    return None


class Refused(Exception):
    pass


def guarded(fn):
    try:
        return M.call(fn)
    except M.Disabled as e:
        raise Refused(str(e))
    except NotImplementedError as e:
        raise Refused("NotImplementedError")
    except ValueError as e:
        msg = str(e)
        if any(k in msg for k in ("real and imag not compatible", "evolve into wrong direction", "Can't update configs",
                                  "MpDm don't have to", "unsupported")):
            raise Refused(msg)
        raise


# ----------------------------------------------------------------------------------------------- derivations

def evolve_cfg(obj, method, M=6, **kw):
    from renormalizer.utils import EvolveConfig, CompressConfig, CompressCriteria
    obj.evolve_config = EvolveConfig(method, **kw)
    obj.compress_config = CompressConfig(CompressCriteria.fixed, max_bonddim=M)


def derivations(fam):
    """name -> fn(ctx, src) returning a new object or None (measurement).  `src` is the state the method is called on."""
    from renormalizer.utils import EvolveMethod, CompressConfig, CompressCriteria, OptimizeConfig
    from renormalizer.mps import MpDm, Mpo
    D = {}
    schemes = [("P&C", EvolveMethod.prop_and_compress, {}), ("P&C-RK4", EvolveMethod.prop_and_compress_tdrk4, {}),
               ("P&C-RK", EvolveMethod.prop_and_compress_tdrk, {"rk_solver": "Heun_RK2"}),
               ("P&C-RKadaptive", EvolveMethod.prop_and_compress_tdrk, {"rk_solver": "RKF45", "adaptive": True, "guess_dt": 0.02}),
               ("P&C-adaptive", EvolveMethod.prop_and_compress, {"adaptive": True, "guess_dt": 0.02}),
               ("PS", EvolveMethod.tdvp_ps, {}), ("PS-RK45", EvolveMethod.tdvp_ps, {"ivp_solver": "RK45"}),
               ("PS-adaptive", EvolveMethod.tdvp_ps, {"adaptive": True, "guess_dt": 0.02}),
               ("PS2", EvolveMethod.tdvp_ps2, {}), ("VMF", EvolveMethod.tdvp_vmf, {}), ("MU-VMF", EvolveMethod.tdvp_mu_vmf, {}),
               ("CMF", EvolveMethod.tdvp_mu_cmf, {"ivp_solver": "RK45"}), ("CMF-krylov", EvolveMethod.tdvp_mu_cmf, {})]
    for name, method, kw in schemes:
        for timek, dt in (("real", 0.04), ("imag", -0.04j)):
            if timek == "imag" and "guess_dt" in kw:
                kw2 = dict(kw, guess_dt=-0.02j)
            else:
                kw2 = kw
            for hk in ("H", "Hoff"):
                if hk == "Hoff" and name not in ("P&C", "PS", "PS2", "CMF"):
                    continue
                def f(c, s, method=method, kw2=kw2, dt=dt, hk=hk):
                    prepare_for_dynamics(s)
                    evolve_cfg(s, method, **kw2)
                    return s.evolve(getattr(c, hk), dt)
                D[f"evolve[{name},{timek},{hk}]"] = f
        # the same call on a state whose bonds are LARGER than the configured limit (the result is truncated; the input must not be)
        def ft(c, s, method=method, kw=kw):
            evolve_cfg(s, method, M=1, **kw)
            return s.evolve(c.H, 0.04)
        D[f"evolve[{name},real,H,limit-below-input-bonds]"] = ft
    if fam == "holstein":
        for space in ("GS", "EX"):
            for hk in ("H", "Hoff"):
                D[f"evolve_exact[{space},{hk}]"] = lambda c, s, space=space, hk=hk: s.evolve_exact(getattr(c, hk), 0.3, space)
    D["H.apply(s)"] = lambda c, s: c.H.apply(s)
    D["H@s"] = lambda c, s: c.H @ s
    D["H.apply(s,canonicalise=True)"] = lambda c, s: c.H.apply(s, canonicalise=True)
    D["P.apply(s)"] = lambda c, s: c.P.apply(s)
    D["H.contract(s)"] = lambda c, s: (lossless(s), c.H.contract(s))[1]
    D["H.contract(s,variational)"] = lambda c, s: (vc_cfg(s), c.H.contract(s, algo="variational"))[1]
    D["s.variational_compress(H)"] = lambda c, s: (vc_cfg(s), s.variational_compress(c.H))[1]
    D["s.add(x)"] = lambda c, s: s.add(c.x)
    D["x.add(s)"] = lambda c, s: c.x.add(s)
    D["s+x"] = lambda c, s: s + c.x
    D["s-x"] = lambda c, s: s - c.x
    D["s.scale(2)"] = lambda c, s: s.scale(2.0)
    D["s.scale(1j)"] = lambda c, s: s.scale(1j)
    D["s*0.5"] = lambda c, s: s * 0.5
    D["s.conj()"] = lambda c, s: s.conj()
    D["s.copy()"] = lambda c, s: s.copy()
    D["s.to_complex()"] = lambda c, s: s.to_complex()
    D["MpDm.from_mps(s)"] = lambda c, s: MpDm.from_mps(s) if M.kind_of(s) == "mps" else (_ for _ in ()).throw(Refused("not an mps"))
    D["s.expand_bond_dimension(H)"] = lambda c, s: (expand_cfg(s), s.expand_bond_dimension(c.H, coef=1e-3))[1]
    D["s.expand_bond_dimension()"] = lambda c, s: (expand_cfg(s), s.expand_bond_dimension(None, coef=1e-3))[1]
    D["optimize_mps(s.copy(),H)"] = lambda c, s: opt(c, s)
    # measurements (return None)
    D["s.expectation(H)"] = lambda c, s: (s.expectation(c.H), None)[1]
    D["s.expectation(H,self_conj=x.conj())"] = lambda c, s: (s.expectation(c.H, self_conj=c.x.conj()), None)[1]
    D["s.expectations([H,H,Hoff])"] = lambda c, s: (s.expectations([c.H, c.H, c.Hoff]), None)[1]
    D["s.expectations(opt=False)"] = lambda c, s: (s.expectations([c.H, c.Hoff], opt=False), None)[1]
    D["s.e_occupations"] = lambda c, s: (s.e_occupations, None)[1]
    D["s.ph_occupations"] = lambda c, s: (s.ph_occupations, None)[1]
    D["s.calc_1site_rdm()"] = lambda c, s: (s.calc_1site_rdm(), None)[1]
    D["s.calc_2site_rdm()"] = lambda c, s: (s.calc_2site_rdm(), None)[1]
    D["s.calc_edof_rdm()"] = lambda c, s: (s.calc_edof_rdm(), None)[1]
    for et in ("1site", "2site", "mutual", "bond"):
        D[f"s.calc_entropy({et})"] = lambda c, s, et=et: (s.calc_entropy(et), None)[1]
    D["s.calc_bond_singular_values()"] = lambda c, s: (s.calc_bond_singular_values(), None)[1]
    D["s.distance(x)"] = lambda c, s: (s.distance(c.x), None)[1]
    D["x.distance(s)"] = lambda c, s: (c.x.distance(s), None)[1]
    D["s.dot(x)"] = lambda c, s: (s.dot(c.x), None)[1]
    D["s.angle(x)"] = lambda c, s: (s.angle(c.x), None)[1]
    D["s.norm/mp_norm"] = lambda c, s: ((s.norm, s.mp_norm), None)[1]
    D["s.todense()"] = lambda c, s: (s.todense(), None)[1]
    D["s.dump+load"] = lambda c, s: dump_load(c, s)
    return D


def prepare_for_dynamics(s):
    """the TDVP drivers need bond dimensions within the physical limits (a separate finding of C09 when they are not):
    this is done on the object BEFORE the snapshot is compared -- it does not change the represented vector"""
    return s


def lossless(s):
    from renormalizer.utils import CompressConfig, CompressCriteria
    s.compress_config = CompressConfig(CompressCriteria.fixed, max_bonddim=64)


def vc_cfg(s):
    from renormalizer.utils import CompressConfig, CompressCriteria
    s.compress_config = CompressConfig(CompressCriteria.fixed, max_bonddim=8, vmethod="2site", vguess_m=(2, 8))   # lossy operator guess: the operator handed in must survive it


def expand_cfg(s):
    from renormalizer.utils import CompressConfig, CompressCriteria
    s.compress_config = CompressConfig(CompressCriteria.fixed, max_bonddim=6)


def opt(c, s):
    from renormalizer.mps.gs import optimize_mps
    from renormalizer.utils import OptimizeConfig
    if M.kind_of(s) != "mps":
        raise Refused("not an mps")
    guess = s.copy()     # documented: the optimiser overwrites its initial guess -- so the guess is a copy made by the library
    guess.optimize_config = OptimizeConfig(procedure=[[4, 0.3], [6, 0]])
    e, res = optimize_mps(guess, c.H)
    return res


def dump_load(c, s):
    import os
    import tempfile
    d = tempfile.mkdtemp(prefix="c13_")
    try:
        p = os.path.join(d, "s.npz")
        s.dump(p)
        return type(s).load(s.model, p)
    finally:
        import shutil
        shutil.rmtree(d, ignore_errors=True)



# ----------------------------------------------------------------------------------------------- trees (TTNS / TTNO)

TREE_SHAPES = {
    # name -> (preorder parent vector, groups of basis-set indices per node)
    "linear": ([-1, 0, 1, 2], [[0], [1], [2], [3]]),
    "star": ([-1, 0, 0, 0], [[0], [1], [2], [3]]),
    "virtual-root+pair": ([-1, 0, 0, 2], [[], [0, 1], [2], [3]]),
    "single-node": ([-1], [[0, 1, 2, 3]]),
}


def make_tree_ctx(shape, seed):
    from renormalizer.tn import TTNS, TTNO
    from mc import trees as TR
    from mc.chains import basis_list, neutral_terms, raising_terms
    c = Ctx()
    c.fam = "tree:" + shape
    parent, groups = TREE_SHAPES[shape]
    basis = basis_list("eph", 4)
    rs = env.rng(seed, ("c13tree", shape))
    h_terms = neutral_terms("eph", 4, rs)
    r_terms = raising_terms("eph", 4, rs)
    tree = TR.build_basis_tree(parent, groups, basis)
    c.order = list(basis)
    c.tree = tree
    c.H = TTNO(tree, h_terms)
    c.P = TTNO(tree, r_terms)
    env.reseed(seed, ("c13tree", shape, "a"))
    c.a = TTNS.random(tree, np.array([1]), 4)
    env.reseed(seed, ("c13tree", shape, "x"))
    c.x = TTNS.random(tree, np.array([1]), 3)
    c.x = c.x.to_complex(inplace=True) if False else c.x
    c.a.canonicalise()
    c.a.canonicalise()
    return c


def tree_snap(c, obj):
    from renormalizer.tn import TTNO
    if isinstance(obj, TTNO):
        return (np.asarray(obj.todense(c.order)).copy(), np.asarray(obj.qntot).copy())
    from mc import trees as TR
    return (TR.dense_state(obj, c.order).copy(), np.asarray(obj.qntot).copy())


def tree_same(c, obj, s, tol=TOL):
    d = tree_snap(c, obj)
    if not close(d[0], s[0], tol):
        return f"represented object changed (rel {rel_err(d[0], s[0]):.2e})"
    if np.any(d[1] != s[1]):
        return f"qntot changed {s[1].tolist()} -> {d[1].tolist()}"
    return None


def tree_cfg(t, scheme, M=6):
    from renormalizer.utils import EvolveConfig, EvolveMethod, CompressConfig, CompressCriteria
    method = {"vmf": EvolveMethod.tdvp_vmf, "pc": EvolveMethod.prop_and_compress_tdrk4, "ps": EvolveMethod.tdvp_ps, "ps2": EvolveMethod.tdvp_ps2}[scheme]
    t.evolve_config = EvolveConfig(method, force_ovlp=False, ivp_rtol=1e-5, ivp_atol=1e-8)
    t.compress_config = CompressConfig(CompressCriteria.fixed, max_bonddim=M)


def tree_derivations():
    D = {}
    for scheme in ("vmf", "pc", "ps", "ps2"):
        for timek, dt in (("real", 0.04), ("imag", -0.04j)):
            D[f"evolve[{scheme},{timek}]"] = lambda c, s, scheme=scheme, dt=dt: (tree_cfg(s, scheme), s.evolve(c.H, dt))[1]
        D[f"evolve[{scheme},real,limit-below-input-bonds]"] = lambda c, s, scheme=scheme: (tree_cfg(s, scheme, M=1), s.evolve(c.H, 0.04))[1]
    D["evolve[ps,real,normalize=False]"] = lambda c, s: (tree_cfg(s, "ps"), s.evolve(c.H, 0.04, normalize=False))[1]
    D["H.apply(s)"] = lambda c, s: c.H.apply(s)
    D["H@s"] = lambda c, s: c.H @ s
    D["H.apply(s,canonicalise=True)"] = lambda c, s: c.H.apply(s, canonicalise=True)
    D["P.apply(s)"] = lambda c, s: c.P.apply(s)
    D["H.contract(s)"] = lambda c, s: (tree_cfg(s, "ps"), c.H.contract(s))[1]
    D["s.add(x)"] = lambda c, s: s.add(c.x)
    D["x.add(s)"] = lambda c, s: c.x.add(s)
    D["s+x"] = lambda c, s: s + c.x
    D["s.scale(2)"] = lambda c, s: s.scale(2.0)
    D["s.scale(1j)"] = lambda c, s: s.to_complex().scale(1j) if not np.iscomplexobj(s.root.tensor) else s.scale(1j)
    D["s.copy()"] = lambda c, s: s.copy()
    D["s.to_complex()"] = lambda c, s: s.to_complex()
    D["s.copy().compress()"] = lambda c, s: tree_compress_copy(c, s)
    D["optimize_ttns(s.copy(),H)"] = lambda c, s: tree_opt(c, s)
    D["s.dump+load"] = lambda c, s: tree_dump_load(c, s)
    # measurements
    D["s.expectation(H)"] = lambda c, s: (s.expectation(c.H), None)[1]
    D["s.expectation1(H,bra=x)"] = lambda c, s: (s.expectation1(c.H, bra=c.x), None)[1]
    D["x.expectation1(H,bra=s)"] = lambda c, s: (c.x.expectation1(c.H, bra=s), None)[1]
    D["s.calc_1site_rdm()"] = lambda c, s: (s.calc_1site_rdm(), None)[1]
    D["s.calc_1dof_rdm()"] = lambda c, s: (s.calc_1dof_rdm(), None)[1]
    D["s.calc_1site_entropy()"] = lambda c, s: (s.calc_1site_entropy(), None)[1]
    D["s.calc_2dof_rdm"] = lambda c, s: (s.calc_2dof_rdm([(0, 1), (0, 3), (1, 2)]), None)[1]
    D["s.calc_2dof_mutual_info"] = lambda c, s: (s.calc_2dof_mutual_info([(0, 1), (0, 3)]), None)[1]
    D["s.calc_bond_singular_values()"] = lambda c, s: (s.calc_bond_singular_values(), None)[1]
    D["s.calc_bond_entropy()"] = lambda c, s: (s.calc_bond_entropy(), None)[1]
    D["s.ttns_norm"] = lambda c, s: (s.ttns_norm, None)[1]
    D["s.todense()"] = lambda c, s: (s.todense(c.order), None)[1]
    D["s.check_canonical()"] = lambda c, s: (s.check_canonical(), None)[1]
    return D


def tree_compress_copy(c, s):
    from renormalizer.utils import CompressConfig, CompressCriteria
    t = s.copy()
    t.compress_config = CompressConfig(CompressCriteria.fixed, max_bonddim=2)
    t.canonicalise()
    t.compress()
    return t


def tree_opt(c, s):
    from renormalizer.tn.gs import optimize_ttns
    guess = s.copy()
    optimize_ttns(guess, c.H, procedure=[[4, 0.3], [6, 0]])
    return guess


def tree_dump_load(c, s):
    import os
    import shutil
    import tempfile
    d = tempfile.mkdtemp(prefix="c13t_")
    try:
        p = os.path.join(d, "t.npz")
        s.dump(p)
        return type(s).load(c.tree, p)
    finally:
        shutil.rmtree(d, ignore_errors=True)


TREE_PRODUCING2 = ["evolve[pc,real]", "evolve[ps,imag]", "evolve[ps2,real]", "evolve[vmf,real]", "H.apply(s)", "P.apply(s)", "s.add(x)", "s.scale(2)",
                   "s.copy()", "s.to_complex()", "H.contract(s)"]


def tree_mutations():
    from renormalizer.utils import CompressConfig, CompressCriteria
    mus = {}
    mus["scale(3,inplace)"] = lambda t: t.scale(3.0, inplace=True)
    mus["canonicalise"] = lambda t: t.canonicalise()

    def trunc(t):
        t.canonicalise()
        t.compress_config = CompressConfig(CompressCriteria.fixed, max_bonddim=1)
        t.compress()
    mus["compress(M=1)"] = trunc
    mus["normalize(ttns_and_coeff)"] = lambda t: t.normalize("ttns_and_coeff")
    mus["normalize(ttns_norm_to_coeff)"] = lambda t: t.normalize("ttns_norm_to_coeff")

    def setnode(t):
        n = t.node_list[len(t.node_list) // 2]
        n.tensor = n.tensor * 0.25
    mus["node.tensor=0.25*node.tensor"] = setnode

    def inplace_node(t):
        n = t.node_list[-1]
        n.tensor *= 0.5
    mus["node.tensor*=0.5"] = inplace_node
    mus["coeff=0.3"] = lambda t: setattr(t, "coeff", 0.3 * t.coeff)
    mus["to_complex(inplace)"] = lambda t: t.to_complex(inplace=True)
    return mus


STATE_PRODUCING_QUICK = ["evolve[P&C,real,H]", "evolve[PS,imag,H]", "evolve[PS2,real,H]", "evolve[CMF,real,H]", "H.apply(s)", "P.apply(s)",
                         "s.add(x)", "s.scale(2)", "s.conj()", "s.copy()", "s.to_complex()", "MpDm.from_mps(s)", "H.contract(s)"]


def mutations():
    from renormalizer.utils import CompressConfig, CompressCriteria
    mus = {}
    mus["scale(3,inplace)"] = lambda t: t.scale(3.0, inplace=True)
    mus["scale(1j,inplace)"] = lambda t: t.scale(1j, inplace=True)
    mus["ensure_right_canonical"] = lambda t: t.ensure_right_canonical()
    mus["ensure_left_canonical"] = lambda t: t.ensure_left_canonical()

    def trunc(t):
        t.ensure_left_canonical()
        t.compress_config = CompressConfig(CompressCriteria.fixed, max_bonddim=1)
        t.compress()
    mus["compress(M=1)"] = trunc
    mus["normalize(mps_and_coeff)"] = lambda t: t.normalize("mps_and_coeff")
    mus["normalize(mps_norm_to_coeff)"] = lambda t: t.normalize("mps_norm_to_coeff")

    def setitem(t):
        i = t.site_num // 2
        arr = np.asarray(t[i].array)
        t[i] = arr * 0.25
    mus["t[i]=0.25*t[i]"] = setitem
    mus["coeff=0.3"] = lambda t: setattr(t, "coeff", 0.3 * t.coeff)
    mus["move_qnidx(0)"] = lambda t: t.move_qnidx(0)
    return mus


def cases(tier, seed):
    fams = ["eph", "holstein", "holstein-loaded", "holstein-mpdm"] if tier == "quick" else ["eph", "holstein", "holstein-loaded", "holstein-mpdm", "eph-loaded", "elec", "two"]
    for fam in fams:
        D = derivations(fam.replace("-loaded", "").replace("-mpdm", ""))
        names = list(D)
        producing2 = STATE_PRODUCING_QUICK if tier == "quick" else [n for n in names if not n.startswith(("s.expect", "s.e_occ", "s.ph_occ", "s.calc", "s.dist", "x.dist", "s.dot", "s.angle", "s.norm", "s.todense"))]
        for m in names:
            yield {"fam": fam, "m": m, "m2": None}
            for m2 in producing2:
                if tier == "quick" and fam.startswith("holstein") and not (m.startswith("evolve_exact") or m2.startswith("evolve_exact")):
                    continue   # quick: the HolsteinModel family only covers what needs it; the generic family covers the rest
                if m2 in D:
                    yield {"fam": fam, "m": m, "m2": m2}
        if tier != "quick" or fam == "eph":
            # the second derivation may also be a measurement of b  (tree cases are appended at the end)
            for m in (STATE_PRODUCING_QUICK if tier == "quick" else producing2):
                if m not in D:
                    continue
                for m2 in names:
                    if m2 not in producing2:
                        yield {"fam": fam, "m": m, "m2": m2}
    yield from tree_cases(tier)


def tree_cases(tier):
    D = tree_derivations()
    shapes = list(TREE_SHAPES) if tier != "quick" else ["star", "virtual-root+pair", "single-node"]
    for shape in shapes:
        for m in D:
            yield {"fam": "tree:" + shape, "m": m, "m2": None}
            for m2 in (TREE_PRODUCING2 if tier != "quick" else TREE_PRODUCING2[::2] + ["s.copy()"]):
                yield {"fam": "tree:" + shape, "m": m, "m2": m2}
        for m in TREE_PRODUCING2:
            for m2 in D:
                if m2 not in TREE_PRODUCING2:
                    if tier == "quick" and shape not in ("star", "single-node"):
                        continue
                    yield {"fam": "tree:" + shape, "m": m, "m2": m2}


def run_program(fam, seed, m, m2, D, MU):
    """the program is executed once on fresh objects; every (mutation, target) is then applied to ONE python deepcopy of
    the whole set of live objects (a single deepcopy call preserves any aliasing between them, which is what the mutation
    step is about).  returns (status, violations, maxbond, n_mutations_run)"""
    from mc.budget import rhs_budget, BudgetExceeded
    is_tree = fam.startswith("tree:")
    if is_tree:
        from renormalizer.tn import TTNO
        c = make_tree_ctx(fam.split(":", 1)[1], seed)
        live = {"a": c.a, "x": c.x, "H": c.H, "P": c.P}
        snap_ = lambda v: tree_snap(c, v)
        same_ = lambda v, s_, tol=TOL: tree_same(c, v, s_, tol)
        is_op = lambda v: isinstance(v, TTNO)
        bonds = lambda v: list(v.bond_dims) or [1]

        def probe_(v):
            v.canonicalise()
            v.canonicalise()
    else:
        c = make_ctx(fam, seed)
        live = {"a": c.a, "x": c.x, "H": c.H, "Hoff": c.Hoff, "P": c.P}
        snap_ = snap
        same_ = same
        is_op = lambda v: M.kind_of(v) == "mpo"
        bonds = lambda v: v.bond_dims

        def probe_(v):
            v.ensure_left_canonical()
            v.ensure_right_canonical()
    snaps = {k: snap_(v) for k, v in live.items()}
    viol = []
    maxbond = max(bonds(c.a))

    def check(objs, step, exclude=(), mu=None, target=None):
        for k, v in objs.items():
            if k in exclude:
                continue
            try:
                msg = same_(v, snaps[k])
            except Exception as e:
                msg = f"observer raised {e!r}"
            if msg:
                viol.append((f"input-disturbed:{k}", step, f"after {step}: object '{k}' {msg}", mu, target))

    def derive(name, src):
        try:
            with rhs_budget(4000):
                env.reseed(seed, ("c13-run", fam, name))
                return guarded(lambda: D[name](c, src)), None
        except Refused:
            return None, "refused"
        except BudgetExceeded:
            return None, "refused"
        except Exception as e:
            import sys
            import traceback
            tb = traceback.extract_tb(sys.exc_info()[2])
            lib = [f.name for f in tb if "/renormalizer/" in f.filename]
            return None, ("abort", f"{name} raised {e!r} (innermost library frame {lib[-1] if lib else '?'})")

    b, st = derive(m, c.a)
    if st == "refused":
        return "refused", [], maxbond, 0
    if isinstance(st, tuple):
        # an abort of a numerical driver is owned by C08/C09/C10; the input must nevertheless be intact
        check(live, f"aborted {m}")
        return "aborted", viol, maxbond, 0
    check(live, f"b={m}(a)")
    if b is not None:
        live["b"] = b
        snaps["b"] = snap_(b)
        maxbond = max(maxbond, max(bonds(b)))
    if viol:
        return "ok", viol, maxbond, 0
    if m2 is not None:
        src = b if b is not None else c.a
        cc, st = derive(m2, src)
        if st == "refused":
            return "refused", [], maxbond, 0
        if isinstance(st, tuple):
            check(live, f"aborted {m2}")
            return "aborted", viol, maxbond, 0
        check(live, f"c={m2}({'b' if b is not None else 'a'})")
        if cc is not None:
            live["c"] = cc
            snaps["c"] = snap_(cc)
        if viol:
            return "ok", viol, maxbond, 0
    nmut = 0
    for mu_name in [None] + list(MU):
        for target in ((None,) if mu_name is None else ("a", "b", "c")):
            objs = copy.deepcopy(live)
            if mu_name is not None:
                if target not in objs or is_op(objs[target]):
                    continue
                try:
                    guarded(lambda: MU[mu_name](objs[target]))
                except Exception:
                    continue   # a mutator refusing / failing on its own target is not this property's business
                nmut += 1
                check(objs, f"{mu_name} on {target}", exclude=(target,), mu=mu_name, target=target)
            # probe: the untouched objects must still be usable (labels consistent with tensors)
            for k, v in objs.items():
                if k == target or is_op(v) or np.linalg.norm(snaps[k][0]) < 1e-12:
                    continue
                try:
                    probe_(v)
                    msg = same_(v, snaps[k], 1e-8)
                except Exception as e:
                    msg = f"canonicalising it raised {e!r}"
                if msg:
                    viol.append((f"input-unusable:{k}", "probe", f"after the program{'' if mu_name is None else ' and ' + mu_name + ' on ' + target}, untouched object '{k}': {msg}", mu_name, target))
            if viol:
                return "ok", viol, maxbond, nmut
    return "ok", viol, maxbond, nmut


def run_case(desc, seed):
    fam, m, m2 = desc["fam"], desc["m"], desc["m2"]
    D = tree_derivations() if fam.startswith("tree:") else derivations(fam.replace("-loaded", "").replace("-mpdm", ""))
    MU = tree_mutations() if fam.startswith("tree:") else mutations()
    viol = {}
    status, v, maxbond, nmut = run_program(fam, seed, m, m2, D, MU)
    transitions = (0 if status == "refused" else 1 + (1 if m2 else 0)) + nmut
    for kind, step, msg, mu, t in v:
        which = m2 if (m2 and (step.startswith("c=") or "aborted " + str(m2) in step)) else m
        if step.startswith(("b=", "c=", "aborted")):
            sig = f"C13:{kind}:by:{_gen(which)}"
        elif mu is None:
            sig = f"C13:{kind}:after:{_gen(m)}" + (f"+{_gen(m2)}" if m2 else "")
        else:
            sig = f"C13:{kind}:mutation:{mu}:of:{t}:derived-by:{_gen(m)}" + (f"+{_gen(m2)}" if m2 else "")
        if fam.startswith("tree:"):
            sig = sig.replace("C13:", "C13:tree:", 1)
        if sig not in viol:
            viol[sig] = {"sig": sig, "msg": f"[{fam}] program: b={m}(a)" + (f"; c={m2}(b)" if m2 else "") + f" -- {msg}"}
    return {"nontrivial": status in ("ok", "aborted") and (maxbond > 1 or fam.endswith("single-node")), "states": 1 + transitions, "transitions": transitions,
            "viol": list(viol.values()), "rejected": 1 if status == "refused" else 0,
            "counters": {"refused_programs": int(status == "refused"), "aborted_drivers": int(status == "aborted"), "mutations_run": nmut},
            "outcome": f"{status}:{'viol' if viol else 'ok'}",
            "sample": {"desc": desc, "mutations_run": nmut}}


def _gen(name):
    return name or "-"
