"""C04 -- canonicalisation and lossless compression preserve the represented object.   (E2: abstract-state BFS to fixpoint)

One register x holding a state / operator / density operator built in every *seed kind* (product, full-rank random,
over-complete, rank-deficient, complex, real+complex, neutral and charged operators, operator product, density operator),
for every family (one- and two-component labels, none), every n in 1..N, every sector.
Actions (the complete gauge alphabet): canonicalise(), canonicalise(stop_idx=j) for EVERY j (incl. the current centre),
compress() without truncation under each of the three criteria, ensure_left/right_canonical(), move_qnidx(j).
BFS over abstract gauge states (two concrete representatives per abstract state) until no new state appears.
Invariants, evaluated after every transition:
  I1 represented object (x coeff) unchanged;  I2 qntot unchanged and no weight outside the sector;
  I3 sites swept by the action are isometries in the sweep direction (operators: up to the scalar the library moves), and
     if the action advertises a full canonical form (complete sweep / ensure_*), all sites away from the centre are;
  I4 no bond dimension grew;  I5 after two consecutive opposite complete sweeps bond_k <= min(prod d_left, prod d_right)
     (squared for operators);  I6 labels stay valid descriptions of the non-zero blocks (shared with C06).
Leaf check in every reached state: variational_compress(O) (1site and 2site) of operator x state converges to O@x.
"""
import functools

import itertools

import numpy as np

from mc import env  # noqa: F401
from mc import machine as M
from mc import actions as A
from mc.chains import Chain, sectors, charged_sites
from mc.ref.dense import close, rel_err

ID = "C04"
LEVEL = "model_checking"
RULE = ("a case = (family, n, sector, seed kind); states = abstract gauge states (kind,dtype,qnidx,to_right,isometry flags,bond dims) "
        "reached by BFS with two concrete representatives each; transitions = real gauge calls; non-trivial case = the seed object has a "
        "bond > 1, or n = 1, or is a product state (bonds of dimension 1 are in the quantifier); distinct = distinct descriptor")
ASSUMPTIONS = [
    "tensor entries are seeded generic values; rank deficiency / over-completeness are produced structurally (a+a, a+2a)",
    "isometry tolerance 1e-8; operators are checked up to the scalar factor that canonicalise() deliberately keeps on the swept site",
    "AssertionError from the precondition asserts of canonicalise/compress themselves (centre not at the chain end, input not canonical) disables the transition",
    "variational compression is compared at 1e-4 relative (its own convergence threshold is 1e-5)",
]
HORIZON_S = 600
HEAVY_CASES = True
SEEDS = ["prod", "rand", "over", "rdef", "cplx", "mixed", "mpoN", "mpoR", "mpoNN", "mpdm", "swept-sum", "swept-applied", "tiny-scale", "huge-scale"]
# the last two carry a HISTORY: a gauge sweep (flags: to_right=True, centre at site 0), then a sum / an operator application that keeps
# those flags on tensors that are no longer right-canonical


def COST(desc):
    return desc["n"] ** 2 * (3 if desc["kind"] in ("over", "rdef", "mpoNN", "mpdm", "swept-sum", "swept-applied", "tiny-scale", "huge-scale") else 1) * (6 if desc.get("mode") == "vc" else 1)


def BOUND(tier):
    if tier == "quick":
        return {"families": {"elec": "n=1..4", "two": "n=1..3", "spin": "n=1..3", "eph": "n=2..3"}, "bfs": "to fixpoint", "seed_kinds": SEEDS}
    return {"families": {"elec": "n=1..5", "two": "n=1..4", "spin": "n=1..4", "eph": "n=2..4", "mixed": "n=3..4"}, "bfs": "to fixpoint", "seed_kinds": SEEDS}


def cases(tier, seed):
    quick = tier == "quick"
    fams = [("elec", (1, 2, 3, 4)), ("two", (1, 2, 3)), ("spin", (1, 2, 3)), ("eph", (2, 3))] if quick else \
        [("elec", (1, 2, 3, 4, 5)), ("two", (1, 2, 3, 4)), ("spin", (1, 2, 3, 4)), ("eph", (2, 3, 4)), ("mixed", (3, 4))]
    for fam, ns in fams:
        for n in ns:
            for sec in sectors(fam, n):
                for kind in SEEDS:
                    if kind in ("mpoN", "mpoR", "mpoNN") and sec != sectors(fam, n)[0]:
                        continue  # operators do not depend on the state sector
                    if kind == "mpoR" and fam == "spin":
                        continue
                    if quick and n == 4 and kind in ("mixed", "mpdm"):
                        continue
                    if kind in ("swept-sum", "swept-applied", "tiny-scale", "huge-scale") and n < 2:
                        continue
                    yield {"fam": fam, "n": n, "sector": sec, "kind": kind, "mode": "bfs"}
                    if kind in ("prod", "rand", "over", "rdef", "cplx", "mixed") and n >= 2:
                        if quick and (n == 4 or kind in ("mixed",)):
                            continue
                        for vm in ("1site", "2site"):
                            yield {"fam": fam, "n": n, "sector": sec, "kind": kind, "mode": "vc", "vmethod": vm}


@functools.lru_cache(maxsize=8)
def _chain(fam, n, seed):
    return Chain(fam, n, seed)


def make_seed(ch, sec, kind):
    from renormalizer.mps import MpDm
    n = ch.n
    if kind == "prod":
        cs = charged_sites(ch.family, n)
        if ch.family == "two":
            na, nb = sec
            occ = [i for i in range(n) if i % 2 == 0][:na] + [i for i in range(n) if i % 2 == 1][:nb]
        elif ch.family == "spin":
            occ = []
        else:
            occ = cs[:sec[0]]
        return ch.product_mps(occ)
    m = 8 if ch.family == "two" else 4
    if kind == "rand":
        return ch.random_mps(sec, m, "x")
    if kind == "over":
        a = ch.random_mps(sec, m, "x")
        b = ch.random_mps(sec, m, "x")
        return a.add(b)
    if kind == "rdef":
        a = ch.random_mps(sec, m, "x")
        return a.add(ch.random_mps(sec, m, "x").scale(2.0)).add(ch.random_mps(sec, max(2, m - 2), "y"))
    if kind in ("tiny-scale", "huge-scale"):
        # the represented vector has an extreme overall scale carried by the TENSORS (not by the prefactor), and a Schmidt spectrum that
        # spans four orders of magnitude: gauge moves and lossless compression are scale invariant
        a = ch.random_mps(sec, 1, "x")                   # (nearly) a product state: one dominant Schmidt value per bond ...
        b = ch.random_mps(sec, m, "y")                   # ... plus a full-rank admixture five orders of magnitude below
        return a.add(b.scale(1e-5)).scale(1e-12 if kind == "tiny-scale" else 1e9)
    if kind == "swept-sum":
        a = ch.random_mps(sec, m, "x", cplx=True)
        b = ch.random_mps(sec, m, "y")
        a.canonicalise()
        b.canonicalise()
        return a.add(b)
    if kind == "swept-applied":
        a = ch.random_mps(sec, m, "x")
        a.canonicalise()
        return ch.mpo_neutral().apply(a)
    if kind == "cplx":
        return ch.random_mps(sec, m, "x", cplx=True)
    if kind == "mixed":
        a = ch.random_mps(sec, m, "x")
        b = ch.random_mps(sec, max(2, m - 1), "y", cplx=True)
        b.coeff = 0.5
        return a.add(b)
    if kind == "mpoN":
        return ch.mpo_neutral("Hopcroft-Karp")
    if kind == "mpoR":
        return ch.mpo_raising()
    if kind == "mpoNN":
        o = ch.mpo_neutral()
        return o.apply(ch.mpo_neutral("Hopcroft-Karp"))
    if kind == "mpdm":
        a = ch.random_mps(sec, m, "x")
        return ch.mpo_neutral().apply(MpDm.from_mps(a))
    raise ValueError(kind)


def iso_flags(obj):
    """per site: (left isometry up to scalar?, right isometry up to scalar?, strict left, strict right)"""
    out = []
    for i in range(obj.site_num):
        t = M.raw(obj, i)
        ml = t.reshape(-1, t.shape[-1])
        gl = ml.conj().T @ ml
        mr = t.reshape(t.shape[0], -1)
        gr = mr @ mr.conj().T
        def prop(g):
            lam = np.trace(g).real / g.shape[0]
            return lam > 0 and np.abs(g - lam * np.eye(g.shape[0])).max() <= 1e-8 * max(lam, 1e-300)
        def strict(g):
            return np.abs(g - np.eye(g.shape[0])).max() <= 1e-8
        out.append((prop(gl), prop(gr), strict(gl), strict(gr)))
    return out


def exact_bond_cap(obj):
    d = np.array([b.nbas for b in obj.model.basis], dtype=float)
    if M.kind_of(obj) != "mps":
        d = d ** 2
    left = np.concatenate([[1.0], np.cumprod(d)])
    right = np.concatenate([[1.0], np.cumprod(d[::-1])])[::-1]
    return np.minimum(left, right)


def gauge_alphabet(n):
    acts = []

    def post_common(st, before, name, swept, full_claim):
        x = st.regs["x"]
        v = []
        if np.any(np.asarray(x.qntot) != before["qntot"]):
            v.append(("qntot-changed", "x", f"{name}: qntot {before['qntot']} -> {np.asarray(x.qntot).tolist()}"))
        bd = list(x.bond_dims)
        if any(b > a for a, b in zip(before["bonds"], bd)):
            v.append(("bond-grew", "x", f"{name}: bond dims {before['bonds']} -> {bd}"))
        fl = iso_flags(x)
        strict = M.kind_of(x) != "mpo"
        c = x.qnidx
        sites = set(swept)
        if full_claim:
            sites |= set(range(x.site_num)) - {c}
        for s in sorted(sites):
            if s == c:
                continue
            want_left = s < c
            ok = fl[s][2 if want_left else 3] if strict else fl[s][0 if want_left else 1]
            if not ok:
                v.append(("not-isometry", "x", f"{name}: site {s} is not a {'left' if want_left else 'right'} isometry although the centre is advertised at {c} (to_right={x.to_right}); bond dims {bd}"))
                break
        if before.get("two_sweeps"):
            cap = exact_bond_cap(x)
            if any(b > c_ + 1e-9 for b, c_ in zip(bd, cap)):
                v.append(("bond-above-physical-limit", "x", f"{name}: after two opposite complete sweeps bond dims {bd} exceed {cap.tolist()}"))
        return v

    def snapshot(st):
        x = st.regs["x"]
        return {"qntot": np.asarray(x.qntot).copy(), "bonds": list(x.bond_dims), "qnidx": x.qnidx, "to_right": x.to_right}

    def can(st):
        x = st.regs["x"]
        before = snapshot(st)
        before["two_sweeps"] = st.aux.get("last_full_sweep_dir") is not None and st.aux.get("last_full_sweep_dir") != x.to_right
        r = M.call(x.canonicalise)
        if x.to_right == before["to_right"] and x.site_num > 0:
            return [("direction-not-switched", "x", f"canonicalise(): to_right still {x.to_right} after a complete sweep")]
        st.aux["last_full_sweep_dir"] = before["to_right"]
        extra = [] if r is x else [("return-not-self", "x", "canonicalise() did not return self")]
        return extra + post_common(st, before, "canonicalise()", range(x.site_num), True)
    acts.append(M.Action("x.canonicalise()", can))

    for j in range(n):
        def can_j(st, j=j):
            x = st.regs["x"]
            before = snapshot(st)
            c0 = x.qnidx
            # valid stop sites lie in the sweep direction from the centre (the centre itself included)
            if (x.to_right and j < c0) or ((not x.to_right) and j > c0):
                raise M.Disabled("stop site behind the sweep")
            M.call(x.canonicalise, stop_idx=j)
            st.aux["last_full_sweep_dir"] = None
            swept = range(min(c0, j), max(c0, j) + 1)
            v = post_common(st, before, f"canonicalise(stop_idx={j})", swept, False)
            if x.qnidx != j:
                # (a sweep that reaches the chain end switches direction; the centre must still be the stop site)
                v.append(("centre-not-at-stop", "x", f"canonicalise(stop_idx={j}) from centre {c0}: advertised centre is {x.qnidx}"))
            return v
        acts.append(M.Action(f"x.canonicalise(stop_idx={j})", can_j))

    for crit in ("fixed", "threshold", "both"):
        def cmp_(st, crit=crit):
            from renormalizer.utils import CompressConfig, CompressCriteria
            x = st.regs["x"]
            before = snapshot(st)
            x.compress_config = CompressConfig(getattr(CompressCriteria, crit), threshold=1e-14, max_bonddim=A.BIG_M)
            M.call(x.compress)
            st.aux["last_full_sweep_dir"] = None
            # for a pure operator compress() deliberately leaves the singular values on the swept site (explicit is_mpo branch
            # in _update_ms) and never asserts canonical input: no isometry claim is advertised for operators here
            is_op = M.kind_of(x) == "mpo"
            return post_common(st, before, f"compress({crit}, lossless)", [] if is_op else range(x.site_num), not is_op)
        acts.append(M.Action(f"x.compress({crit},lossless)", cmp_))

    def elc(st):
        x = st.regs["x"]
        before = snapshot(st)
        x.ensure_left_canonical()
        st.aux["last_full_sweep_dir"] = None
        v = post_common(st, before, "ensure_left_canonical()", range(x.site_num), True)
        if x.qnidx != x.site_num - 1 or x.to_right:
            v.append(("ensure-left-state", "x", f"after ensure_left_canonical(): qnidx={x.qnidx}, to_right={x.to_right}"))
        return v
    acts.append(M.Action("x.ensure_left_canonical()", elc))

    def erc(st):
        x = st.regs["x"]
        before = snapshot(st)
        x.ensure_right_canonical()
        st.aux["last_full_sweep_dir"] = None
        v = post_common(st, before, "ensure_right_canonical()", range(x.site_num), True)
        if x.qnidx != 0 or not x.to_right:
            v.append(("ensure-right-state", "x", f"after ensure_right_canonical(): qnidx={x.qnidx}, to_right={x.to_right}"))
        return v
    acts.append(M.Action("x.ensure_right_canonical()", erc))

    for j in sorted({0, n // 2, n - 1}):
        def mq(st, j=j):
            st.regs["x"].move_qnidx(j)
            st.aux["last_full_sweep_dir"] = None
        acts.append(M.Action(f"x.move_qnidx({j})", mq))
    return acts


def run_case(desc, seed):
    fam, n, sec, kind = desc["fam"], desc["n"], list(desc["sector"]), desc["kind"]
    ch = _chain(fam, n, seed)
    x = make_seed(ch, sec, kind)
    st0 = M.State()
    st0.regs["x"] = x
    st0.sh["x"] = M.dense_of(x)
    if np.linalg.norm(st0.sh["x"]) < 1e-13 * (1e-13 if kind == "tiny-scale" else 1.0):
        return {"skipped": 1, "outcome": "zero-seed"}
    st0.aux["zero_floor"] = 1e-13 * min(1.0, np.linalg.norm(st0.sh["x"]))     # "numerically zero" is relative to the scale of the seed
    k = M.kind_of(x)
    qn0 = np.asarray(x.qntot).copy()

    def sectors_of(name, obj):
        if k == "mps":
            return ch.sector_mask(qn0)
        return None

    inv = [M.inv_dense, M.inv_labels, M.make_inv_sector(sectors_of)]
    acts = gauge_alphabet(n)
    viol = {}
    stats = {}

    def record(trace, vkind, reg, msg):
        act = M_generic(trace[-1]) if trace else "?"
        one = ":one-site-chain" if n == 1 else ""
        if vkind.startswith("exception"):
            sig = f"C04:{vkind}:{k}{one}"
        else:
            sig = f"C04:{vkind}:{act}:{k}{one}"
        if sig not in viol:
            viol[sig] = {"sig": sig, "msg": f"[{fam} n={n} sector={sec} seed-kind={kind}] trace={trace}: {msg}"}

    reps = []
    orig_step = M.step

    def spy(state, action, invariants):
        status, v = orig_step(state, action, invariants)
        if status == "ok" and not v:
            reps.append(state)
        return status, v

    M.step = spy
    try:
        for trace, vkind, reg, msg in M.explore_bfs(st0, acts, inv, stats=stats, max_states=4000):
            record(trace, vkind, reg, msg)
    finally:
        M.step = orig_step
    transitions = stats.get("transitions", 0)
    # ---- leaf: variational compression of O x state in every reached abstract state (one representative each)
    nleaf = 0
    n_local_minimum = 0
    if desc["mode"] == "vc" and k == "mps" and n >= 2:
        seen = set()
        viol.clear()   # the BFS part is reported by the corresponding mode=bfs case
        O = ch.mpo_neutral()
        Od = O.todense()
        for st in [st0] + reps:
            key = st.key()
            if key in seen:
                continue
            seen.add(key)
            xx0 = st.regs["x"]
            if not ((xx0.to_right and xx0.qnidx == 0) or ((not xx0.to_right) and xx0.qnidx == xx0.site_num - 1)):
                continue   # variational_compress refuses (assert) a centre that is not at the matching chain end
            for vmethod, (gname, gm) in itertools.product((desc["vmethod"],), (("wide-guess", None), ("narrow-operator-guess", 1), ("config-used-before", None))):
                from renormalizer.utils import CompressConfig, CompressCriteria
                s2 = st.clone()
                xx = s2.regs["x"]
                mmax = int(max(exact_bond_cap(xx)))
                # wide guess: the initial guess O_trunc @ x_trunc is exact; narrow operator guess: the operator copy used for the
                # guess is truncated to bond dimension 1 (lossy), the sweeps have to find O@x themselves
                xx.compress_config = CompressConfig(CompressCriteria.fixed, max_bonddim=mmax, vmethod=vmethod,
                                                    vguess_m=(mmax * 4, mmax) if gm is None else (gm, mmax))
                if gname == "config-used-before":
                    # the configuration OBJECT has a history: it served a truncating compression with limit 1 before (which fills its
                    # per-bond table), then the caller asks for a sufficient limit through the sweep schedule
                    import copy as _copy
                    cfg = CompressConfig(CompressCriteria.fixed, max_bonddim=1, vmethod=vmethod, vguess_m=(mmax * 4, mmax))
                    tmp = _copy.deepcopy(xx)
                    tmp.compress_config = cfg
                    try:
                        tmp.ensure_left_canonical()
                        tmp.compress()
                    except Exception:
                        continue
                    cfg.vprocedure = CompressConfig(CompressCriteria.fixed, max_bonddim=mmax, vmethod=vmethod).vprocedure
                    xx.compress_config = cfg
                ref = Od @ s2.sh["x"]
                if np.linalg.norm(ref) < 1e-12:
                    continue
                O = ch.mpo_neutral()
                try:
                    env.reseed(seed, ("vc", fam, n, tuple(sec), kind, vmethod))
                    y = M.call(xx.variational_compress, O)
                except M.Disabled:
                    continue
                except Exception as e:
                    if gm is not None:
                        # a guess built from an operator truncated to bond dimension 1 may be zero or lie in no allowed block
                        # ('Invalid quantum number'): a failure of the poor guess, counted, not claimed
                        n_local_minimum += 1
                        if not close(np.asarray(O.todense()), Od, 1e-9):
                            record(st.trace + [f"variational_compress({vmethod},{gname})"], "variational-operator-changed", "x",
                                   f"the operator passed to variational_compress changed by rel {rel_err(np.asarray(O.todense()), Od):.2e}")
                        continue
                    record(st.trace + [f"variational_compress({vmethod},{gname})"], "exception:" + type(e).__name__ + ":variational_compress", "x", repr(e))
                    continue
                nleaf += 1
                d = M.dense_of(y)
                # the operator handed in must still be the same operator (it is only a guess that is built from a truncated copy)
                if not close(np.asarray(O.todense()), Od, 1e-9):
                    record(st.trace + [f"variational_compress({vmethod},{gname})"], "variational-operator-changed", "x",
                           f"the operator passed to variational_compress changed by rel {rel_err(np.asarray(O.todense()), Od):.2e}")
                if not close(d, ref, 1e-4):
                    if gm is not None:
                        n_local_minimum += 1     # a poor guess (possibly orthogonal to O@x) may leave the sweeps stuck: not claimed
                    else:
                        record(st.trace + [f"variational_compress({vmethod},{gname})"], "variational-mismatch", "x",
                               f"variational_compress(O) ({vmethod}, {gname}) differs from O@x by rel {rel_err(d, ref):.2e}; bond dims {y.bond_dims}")
                # the input must be untouched
                if not close(M.dense_of(xx), s2.sh["x"], 1e-9):
                    record(st.trace + [f"variational_compress({vmethod},{gname})"], "variational-input-changed", "x", "input state changed by variational_compress")
    maxbond = max(x.bond_dims)
    counters = {"disabled_transitions": stats.get("disabled", 0), "abstraction_conflicts": stats.get("nondeterministic_abstract_successors", 0),
                "bfs_fixpoints_reached": int(bool(stats.get("fixpoint"))), "bfs_runs": 1, "variational_leaves": nleaf, "variational_poor_guess_not_converged": n_local_minimum,
                "bfs_capped": int(bool(stats.get("capped")))}
    return {"nontrivial": transitions > 0 and (maxbond > 1 or n == 1 or kind == "prod"), "states": len(stats.get("states", [])),
            "transitions": transitions + nleaf, "viol": list(viol.values()), "counters": counters,
            "outcome": f"{kind}:{k}:{'viol' if viol else 'ok'}:depth={stats.get('bfs_depth')}",
            "sample": {"desc": desc, "seed_bond_dims": list(x.bond_dims), "abstract_states": len(stats.get("states", [])),
                       "transitions": transitions, "bfs_depth": stats.get("bfs_depth")}}


def M_generic(name):
    import re
    name = re.sub(r"move_qnidx\(\d+\)", "move_qnidx(j)", name)
    return re.sub(r"stop_idx=\d+", "stop_idx=j", name)
