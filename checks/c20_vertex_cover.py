"""C20 -- bipartite vertex cover valid and minimum; MPO bonds minimal.

E1, complete: every labelled bipartite graph with |U|<=a, |V|<=b (isolated vertices, empty rows, the edgeless graph
included) under both algorithms; oracle = brute-force minimum cover and brute-force maximum matching (mc/ref/graph.py).
Consequence: for every term table of the C01(a) space under the two graph algorithms the bond dimension at every cut
equals the brute-force minimum cover of {distinct left partial terms} x {distinct right partial terms} of the
deduplicated table and never exceeds min(#left, #right); every graph handed to bipartite_vertex_cover during these
constructions is recorded at the call boundary and re-checked.
"""
import functools
import itertools

import numpy as np

from mc import env  # noqa: F401
from mc.ref import graph as G
from mc import tables as T

ID = "C20"
LEVEL = "exploration"
RULE = ("graph cases: one case = (|U|,|V|,block of consecutive graph numbers); every graph in the block is run through "
        "bipartite_vertex_cover with Hopcroft-Karp and Hungarian; non-trivial graph = at least one edge and min cover < min(|U|,|V|) or "
        "some isolated vertex; table cases: one case = one term table, non-trivial = some cut has >1 distinct partial term on both sides. "
        "distinct_nontrivial counts graphs/tables (not blocks).")
ASSUMPTIONS = [
    "a U- or V-table shorter than the vertex count is read as 'not selected' for the missing trailing (isolated) vertices",
    "bond-dimension consequence is stated against the incidence matrix of the original de-duplicated term table at each cut",
]
ALGOS = ["Hopcroft-Karp", "Hungarian"]
BLOCK = 512


def BOUND(tier):
    return {"graphs": "|U|<=3,|V|<=4 (and 4x3)" if tier == "quick" else "|U|<=4,|V|<=5 (and 5x4)",
            "tables": "spin/eph chains n<=3 (4), k<=3, s=2"}


def cases(tier, seed):
    sizes = []
    amax, bmax = (3, 4) if tier == "quick" else (4, 5)
    for nU in range(1, bmax + 1):
        for nV in range(1, bmax + 1):
            if min(nU, nV) <= amax and nU * nV <= amax * bmax:
                sizes.append((nU, nV))
    for nU, nV in sizes:
        tot = 1 << (nU * nV)
        for start in range(0, tot, BLOCK * (8 if tot > 100000 else 1)):
            yield {"kind": "graphs", "nU": nU, "nV": nV, "start": start, "stop": min(tot, start + BLOCK * (8 if tot > 100000 else 1))}
    # term tables
    for name in ("spin", "eph"):
        for n in ((2, 3) if tier == "quick" else (2, 3, 4)):
            kinds = tuple(["S"] * n if name == "spin" else [["E", "B"][i % 2] for i in range(n)])
            fam = family(kinds, 2)
            kmax = (4 if n == 2 else 3) if n <= 3 else 2      # four rows: the smallest complete 2x2 blocks (a+b)(x+y)
            if tier != "quick" and n <= 3:
                kmax = 4
            for t in T.tables(fam, kmax, ordered_upto=1):
                yield {"kind": "table", "kinds": list(kinds), "table": [list(r) for r in t]}


@functools.lru_cache(maxsize=64)
def family(kinds, s):
    return T.Family(kinds, s)


def check_graph(bvc, masks, nU, nV, algo, viol, where, order="ascending"):
    adj = G.adjacency(masks, nV)
    # the order in which the neighbours of a vertex are listed is not part of the graph: every listing must give a minimum cover
    if order == "descending":
        adj = [a[::-1] for a in adj]
    elif order == "rotated":
        adj = [a[1:] + a[:1] for a in adj]
    nedge = sum(len(a) for a in adj)
    try:
        cu, cv = bvc([np.array(a, dtype=np.int32) for a in adj] if where == "np" else adj, algo=algo)
    except Exception as e:
        cls = "edgeless" if nedge == 0 else "with-edges"
        viol.append({"sig": f"C20:cover:exception:{cls}:{algo}:{type(e).__name__}" + ("" if order == "ascending" else ":neighbours-not-ascending"),
                     "msg": f"bipartite_vertex_cover({adj}, algo={algo}) raised {e!r}"})
        return None
    # a table shorter than the vertex count leaves the trailing (isolated) vertices unselected: still a vertex set
    cu = list(cu) + [False] * (nU - len(list(cu)))
    cv = list(cv) + [False] * (nV - len(list(cv)))
    for u, a in enumerate(adj):
        for v in a:
            if not (cu[u] or cv[v]):
                viol.append({"sig": f"C20:cover:edge-uncovered:{algo}", "msg": f"graph {adj}: edge ({u},{v}) not covered by U={cu} V={cv}"})
                return None
    size = int(sum(bool(x) for x in cu) + sum(bool(x) for x in cv))
    mc = G.min_cover_size(masks)
    mm = G.max_matching_size(masks)
    if mc != mm:
        raise AssertionError("oracle inconsistency (Koenig)")
    if size != mm:
        viol.append({"sig": f"C20:cover:not-minimum:{algo}", "msg": f"graph {adj}: cover size {size} != maximum matching {mm}; U={cu} V={cv}"})
    return size


def run_case(desc, seed):
    from renormalizer.lib import bipartite_vertex_cover as bvc
    viol = []
    if desc["kind"] == "graphs":
        nU, nV = desc["nU"], desc["nV"]
        nontriv = set()
        sizes = {}
        for g in range(desc["start"], desc["stop"]):
            masks = G.masks_from_index(g, nU, nV)
            for algo in ALGOS:
                s = check_graph(bvc, masks, nU, nV, algo, viol, "list")
                sizes[s] = sizes.get(s, 0) + 1
                for order in ("descending", "rotated"):
                    if any(bin(m).count("1") > 1 for m in masks):
                        check_graph(bvc, masks, nU, nV, algo, viol, "list", order)
            allv = 0
            for m in masks:
                allv |= m
            isolated = any(m == 0 for m in masks) or allv != (1 << nV) - 1
            if any(masks) and (G.min_cover_size(masks) < min(nU, nV) or isolated):
                nontriv.add(g)
            if len(viol) > 20:
                break
        return {"counters": {"graphs": desc["stop"] - desc["start"], "graphs_nontrivial": len(nontriv)},
                "outcome": f"{nU}x{nV}:sizes={sorted((k for k in sizes if k is not None))}", "viol": _dedupe(viol),
                "sample": {"nU": nU, "nV": nV, "graph": G.adjacency(G.masks_from_index(desc["start"] + 5 if desc["stop"] - desc["start"] > 5 else desc["start"], nU, nV), nV)},
                "nt_count": len(nontriv), "eval_count": desc["stop"] - desc["start"]}
    # ---- table consequence
    from renormalizer.model import Model
    from renormalizer.mps import Mpo
    import renormalizer.mps.symbolic_mpo as sm
    kinds = tuple(desc["kinds"])
    fam = family(kinds, 2)
    table = [tuple(r) for r in desc["table"]]
    factors = [1.0, 0.5, -0.7, 1.3][:len(table)]
    # deduplicate (the library merges duplicates; with these factors nothing cancels)
    uniq = sorted(set(table))
    n = fam.n
    recorded = []
    orig = sm.bipartite_vertex_cover

    def spy(bigraph, algo="Hopcroft-Karp"):
        recorded.append(([list(map(int, a)) for a in bigraph], algo))
        return orig(bigraph, algo=algo)

    nontrivial = False
    # the graph construction depends on the incidence pattern only: generic prefactors and all-equal prefactors (for which a
    # rank-revealing decomposition would find fewer bond operators than the cover) must both give the minimum cover
    for algo, factors in [(a, f) for a in ALGOS for f in (factors, [1.0] * len(table))]:
        sm.bipartite_vertex_cover = spy
        try:
            model = Model(list(fam.basis), [])
            terms = [fam.term(r, f) for r, f in zip(table, factors)]
            mpo = Mpo(model, terms, algo=algo)
            bd = list(mpo.bond_dims)
        except Exception as e:
            viol.append({"sig": f"C20:table:exception:{type(e).__name__}", "msg": f"Mpo(..., algo={algo}) raised {e!r}"})
            continue
        finally:
            sm.bipartite_vertex_cover = orig
        for cut in range(1, n):
            left = sorted(set(r[:cut] for r in uniq))
            right = sorted(set(r[cut:] for r in uniq))
            masks = [0] * len(left)
            for r in uniq:
                masks[left.index(r[:cut])] |= 1 << right.index(r[cut:])
            mc = G.min_cover_size(masks)
            if len(left) > 1 and len(right) > 1:
                nontrivial = True
            if bd[cut] != mc:
                viol.append({"sig": f"C20:table:bond-not-minimum:{algo}" + (":equal-prefactors" if factors[0] == 1.0 and len(set(factors)) == 1 and len(factors) > 1 else ""),
                             "msg": f"factors {factors} cut {cut}: bond dim {bd[cut]} != minimum cover {mc} of the {len(left)}x{len(right)} incidence matrix; bond dims {bd}"})
            if bd[cut] > min(len(left), len(right)):
                viol.append({"sig": f"C20:table:bond-exceeds-partial-terms:{algo}",
                             "msg": f"cut {cut}: bond dim {bd[cut]} > min({len(left)},{len(right)})"})
    # the same table as a tree operator on the linear tree, with one extra term whose coefficient is exactly zero and which links a left and a
    # right partial term that no other term links: a zero-coefficient term is no term, the bonds must stay at the minimum cover
    if len(uniq) >= 2 and n >= 2:
        extra = (uniq[0][0],) + tuple(uniq[1][1:])
        if extra not in uniq and any(extra):
            from mc import trees as TR
            from renormalizer.tn import TTNO
            for algo in ALGOS:
                try:
                    tree = TR.build_basis_tree(list(range(-1, n - 1)), [[i] for i in range(n)], list(fam.basis))
                    terms0 = [fam.term(r, f) for r, f in zip(table, factors)] + [fam.term(extra, 0.0)]
                    ttno = TTNO(tree, terms0, algo=algo)
                    tb = list(ttno.bond_dims)
                except Exception as e:
                    viol.append({"sig": f"C20:tree-table:exception:{type(e).__name__}", "msg": f"TTNO(linear tree, terms + zero-coefficient term, algo={algo}) raised {e!r}"})
                    continue
                for cut in range(1, n):
                    left = sorted(set(r[:cut] for r in uniq))
                    right = sorted(set(r[cut:] for r in uniq))
                    masks = [0] * len(left)
                    for r in uniq:
                        masks[left.index(r[:cut])] |= 1 << right.index(r[cut:])
                    mc = G.min_cover_size(masks)
                    if tb[cut] != mc:
                        viol.append({"sig": f"C20:tree-table:bond-not-minimum:zero-coefficient-term:{algo}",
                                     "msg": f"linear tree, terms {table} + a zero-coefficient term {extra}: bond of node {cut} has dimension {tb[cut]}, minimum cover of the non-zero terms {mc}; bond dims {tb}"})
                        break
    # the public construction routine called directly with the rows of the table in another order (its own docstring example is not sorted):
    # the order of the terms is not part of the operator, the bonds must stay at the minimum cover
    if len(uniq) >= 2:
        for algo in ALGOS:
            for oname, perm in (("reversed", list(range(len(uniq)))[::-1]), ("rotated", list(range(1, len(uniq))) + [0])):
                try:
                    model = Model(list(fam.basis), [])
                    terms2 = model.check_operator_terms([fam.term(r, f) for r, f in zip(uniq, [1.0, 0.5, -0.7, 1.3])])
                    tab, prim, fac = sm._terms_to_table(model, terms2, 0)
                    tab, fac = np.asarray(tab)[perm], np.asarray(fac)[perm]
                    out = sm.construct_symbolic_mpo(tab, prim, fac, algo=algo)
                    bd = [1] + [mo.shape[1] for mo in out[0]]
                except Exception as e:
                    viol.append({"sig": f"C20:direct-table:exception:{type(e).__name__}", "msg": f"construct_symbolic_mpo(table rows {oname}, algo={algo}) raised {e!r}"})
                    continue
                for cut in range(1, n):
                    left = sorted(set(r[:cut] for r in uniq))
                    right = sorted(set(r[cut:] for r in uniq))
                    masks = [0] * len(left)
                    for r in uniq:
                        masks[left.index(r[:cut])] |= 1 << right.index(r[cut:])
                    mc = G.min_cover_size(masks)
                    if bd[cut] != mc:
                        viol.append({"sig": f"C20:direct-table:bond-not-minimum:{algo}",
                                     "msg": f"construct_symbolic_mpo with the rows of {uniq} in {oname} order: bond dim {bd[cut]} at cut {cut} != minimum cover {mc}; bond dims {bd}"})
                        break
    # the same table as a tree operator on BRANCHING trees (a node with two or more children; the terms in the listed order and reversed):
    # every tree edge is a cut (subtree | rest), its bond must be the minimum cover of that cut's incidence matrix
    if n >= 3:
        from mc import trees as TR
        from renormalizer.tn import TTNO
        shapes = [[-1] + [0] * (n - 1)] + ([[-1, 0, 1, 0]] if n == 4 else [])   # parent vectors are preorder-numbered (the order of bond_dims)
        for parent in shapes:
            groups = [[i] for i in range(n)]
            sub = TR.tree_edges_bipartitions(parent, [tuple(g) for g in groups], n)
            for algo in ALGOS:
                for oname, order_ in (("listed", list(range(len(table)))), ("reversed", list(range(len(table)))[::-1])):
                    try:
                        tree = TR.build_basis_tree(parent, groups, list(fam.basis))
                        terms1 = [fam.term(table[i], factors[i]) for i in order_]
                        tb = list(TTNO(tree, terms1, algo=algo).bond_dims)
                    except Exception as e:
                        viol.append({"sig": f"C20:tree-table:exception:{type(e).__name__}", "msg": f"TTNO(tree {parent}, terms in {oname} order, algo={algo}) raised {e!r}"})
                        continue
                    for node, inside in sub.items():
                        inside = sorted(inside)
                        if not inside or len(inside) == n:
                            continue
                        outside = [i for i in range(n) if i not in inside]
                        left = sorted(set(tuple(r[i] for i in inside) for r in uniq))
                        right = sorted(set(tuple(r[i] for i in outside) for r in uniq))
                        masks = [0] * len(left)
                        for r in uniq:
                            masks[left.index(tuple(r[i] for i in inside))] |= 1 << right.index(tuple(r[i] for i in outside))
                        mc = G.min_cover_size(masks)
                        if tb[node] != mc:
                            viol.append({"sig": f"C20:tree-table:bond-not-minimum:branching-tree:{algo}",
                                         "msg": f"tree {parent}, terms {[table[i] for i in order_]} ({oname} order): bond above node {node} (subtree sites {inside}) has dimension {tb[node]}, "
                                                f"minimum cover of the {len(left)}x{len(right)} incidence matrix is {mc}; bond dims {tb}"})
                            break
    # graphs seen at the call boundary
    for adj, algo in recorded:
        nV = max((max(a) for a in adj if a), default=-1) + 1
        masks = [sum(1 << v for v in a) for a in adj]
        check_graph(bvc, masks, len(adj), nV, algo, viol, "list")
    return {"nontrivial": nontrivial, "counters": {"tables": 1, "graphs_at_call_boundary": len(recorded)},
            "outcome": "table-ok" if not viol else "table-viol", "viol": _dedupe(viol),
            "sample": {"kinds": list(kinds), "table": desc["table"]}}


def _dedupe(viol):
    seen = set()
    out = []
    for v in viol:
        if v["sig"] not in seen:
            seen.add(v["sig"])
            out.append(v)
    return out
