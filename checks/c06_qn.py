"""C06 -- conserved quantum numbers are never violated by any operation.   (E2: register machine, depth-bounded)

Registers a, b (states created in the same sector), O (conserving Hamiltonian), P (operator raising the quantum number
by q), Q (operator results, e.g. P^dagger).  Alphabet = gauge alphabet of C03 (incl. operator gauge) + arithmetic
+ truncating compress(M=1,2) + DMRG sweeps (1site/2site) + one evolve step of every scheme (real and imaginary time).
Invariants after every transition on every state register:
  (a) amplitude outside the *expected* sector (initial sector + charges applied so far) <= 1e-10 of the norm,
  (b) the stored qntot equals the expected sector,
  (c) every entry of every site tensor that the stored labels (qn, qnidx, qntot) forbid is zero, label lists have the
      bond dimensions, boundary labels have length 1.
Exhaustive: every action sequence up to depth d for every sector of every family/size (sharded by first action).
"""
import functools

import numpy as np

from mc import env  # noqa: F401
from mc import machine as M
from mc import actions as A
from mc.chains import Chain, sectors, raising_charge

ID = "C06"
LEVEL = "model_checking"
RULE = ("a case = (family, n, sector, first action); all action sequences up to the depth bound are executed on real objects; states = "
        "abstract gauge states of all registers; non-trivial = at least one transition executed and (some bond > 1 or the sector is "
        "empty-adjacent: all sites occupied / no particle); distinct = distinct descriptor")
ASSUMPTIONS = [
    "number operators / sector masks are built from basis.sigmaqn in dense form, not from the library's labels",
    "lossy actions (truncating compress, optimisation, evolution) re-define the dense shadow from the object itself: only the sector/label invariants are claimed here (their numerical accuracy is C05/C08/C09)",
    "explicit refusals (NotImplementedError, precondition asserts of the called method) disable the transition",
]
HORIZON_S = 900
HEAVY_CASES = True


def COST(desc):
    if desc.get("k") == "tree-op":
        return 3
    if desc.get("k") == "tree":
        return 40 * desc["n"]
    return desc["n"] ** 2 * (4 if ("evolve" in desc["shard"] or "optimize" in desc["shard"]) else 1)


def BOUND(tier):
    if tier == "quick":
        return {"families": {"elec": "n=2..3", "two": "n=2..3", "eph": "n=3", "elec1": "n=1"}, "depth": 2, "trees": "plane trees <= 3 nodes (elec, two-component), depth 2, incl. evolve / optimise / truncate",
                "tree_operators": "3 construction algorithms x trees <= 3 nodes x distributions (2 per occupancy pattern) x every sector x {H, raising sum, raise/lower per dof}"}
    return {"families": {"elec": "n=1..4", "two": "n=1..4", "eph": "n=2..4", "mixed": "n=3"}, "depth": "3 (n<=2), 2 (n>=3)", "trees": "plane trees <= 4 nodes, depth 2",
            "tree_operators": "3 construction algorithms x trees <= 3 nodes x every distribution x every sector x {H, raising sum, raise/lower per dof}"}


def configs(tier):
    if tier == "quick":
        fams = [("elec", (1, 2, 3)), ("two", (2, 3)), ("eph", (3,))]
    else:
        fams = [("elec", (1, 2, 3, 4)), ("two", (1, 2, 3, 4)), ("eph", (2, 3, 4)), ("mixed", (3,))]
    for fam, ns in fams:
        for n in ns:
            for sec in sectors(fam, n):
                if tier == "quick" and fam == "two" and n == 3 and sec not in ([0, 0], [1, 1], [2, 1], [1, 0]):
                    continue
                yield fam, n, sec


def cases(tier, seed):
    for fam, n, sec in configs(tier):
        st, acts = build(fam, n, tuple(sec), seed)
        depth = 2 if tier == "quick" else (3 if n <= 2 else 2)
        for a in acts:
            if tier != "quick" and depth == 3 and ("evolve" in a.name or "optimize" in a.name):
                # the expensive numerical actions are explored at depth 2 as first action and at any later position of depth-3 runs
                yield {"fam": fam, "n": n, "sector": sec, "depth": 2, "shard": a.name}
            else:
                yield {"fam": fam, "n": n, "sector": sec, "depth": depth, "shard": a.name}
    # histories: a gauge sweep of both states (flags: to_right=True, centre at site 0), then a sum / an operator application that keeps
    # those flags on tensors that are no longer right-canonical; every single action of the alphabet follows (three-step histories)
    for fam, n in (("elec", 3), ("two", 3)) + ((("eph", 4), ("elec", 4)) if tier != "quick" else ()):
        for sec in sectors(fam, n):
            st, acts = build(fam, n, tuple(sec), seed)
            for prefix in ("swept-sum", "swept-applied"):
                for a in acts:
                    if tier == "quick" and not (a.name.startswith(("a.", "a=")) or "evolve" in a.name or "optimize" in a.name):
                        continue
                    yield {"fam": fam, "n": n, "sector": sec, "depth": 1, "shard": a.name, "prefix": prefix}
    yield from tree_cases(tier)
    yield from tree_op_cases(tier)
    yield from ctor_cases(tier)


@functools.lru_cache(maxsize=8)
def _chain(fam, n, seed):
    return Chain(fam, n, seed)


def refresh(st, r):
    st.sh[r] = M.dense_of(st.regs[r])


LABEL_FRAMES = {"svd_qn", "eigh_qn", "_get_big_qn", "move_qnidx", "select_basis", "_update_mps", "_update_ms", "_push_cano",
                "blockrecover", "get_qn_mask", "add_outer", "cvec2cmat"}


def dynamic(fn, st):
    """run a numerical driver (optimise / evolve).  An abort that does not come from the quantum-number machinery is not a
    statement about sectors: it is counted (aborted_dynamic) and left to C08/C09, which own those drivers.  Aborts raised inside
    the label code (svd_qn, _update_mps, ...) -- e.g. 'Invalid quantum number' on a valid sector -- are C06 violations."""
    import sys
    import traceback
    from mc.budget import rhs_budget
    try:
        with rhs_budget(2000):
            return fn()
    except M.Disabled:
        raise
    except NotImplementedError:
        raise M.Disabled("not implemented")
    except Exception:
        tb = traceback.extract_tb(sys.exc_info()[2])
        lib = [f.name for f in tb if "/renormalizer/" in f.filename]
        if lib and lib[-1] in ("_push_cano", "_update_ms", "scale") and isinstance(sys.exc_info()[1], AssertionError):
            # `assert tensor.any()`: the driver produced an exactly zero intermediate (e.g. H|vacuum> = 0 inside the Taylor
            # propagator) -- an abort of the scheme, owned by C09, not a statement about sectors
            ABORTS[0] += 1
            raise M.Disabled("zero intermediate")
        if lib and lib[-1] in LABEL_FRAMES:
            raise
        if lib and lib[-1] in ("canonicalise", "compress") and isinstance(sys.exc_info()[1], AssertionError):
            raise M.Disabled("driver refuses this gauge (precondition assert of canonicalise/compress)")
        ABORTS[0] += 1
        raise M.Disabled("aborted outside the label code")


ABORTS = [0]


def lossy_and_dynamic_actions(n, fam):
    from renormalizer.utils import CompressConfig, CompressCriteria, EvolveConfig, EvolveMethod, OptimizeConfig
    acts = []
    for m in (1, 2):
        def trunc(st, m=m):
            a = st.regs["a"]
            a.ensure_right_canonical()
            a.compress_config = CompressConfig(CompressCriteria.fixed, max_bonddim=m)
            M.call(a.compress)
            refresh(st, "a")
        acts.append(M.Action(f"a.compress(M={m})", trunc))

    def trunc_thr(st):
        b = st.regs["b"]
        b.ensure_left_canonical()
        b.compress_config = CompressConfig(CompressCriteria.threshold, threshold=0.3)
        M.call(b.compress)
        refresh(st, "b")
    acts.append(M.Action("b.compress(threshold=0.3)", trunc_thr))

    for method in ("1site", "2site"):
        def opt(st, method=method):
            from renormalizer.mps.gs import optimize_mps
            a = st.regs["a"]
            a.optimize_config = OptimizeConfig(procedure=[[2, 0.4], [3, 0]])
            a.optimize_config.method = method
            if a.site_num == 1 and method == "2site":
                raise M.Disabled("2site on one site")
            energies, res = dynamic(lambda: optimize_mps(a, st.regs["O"]), st)
            st.regs["a"] = res
            refresh(st, "a")
        acts.append(M.Action(f"a=optimize_mps(a,O,{method})", opt))

    schemes = [
        ("P&C", EvolveMethod.prop_and_compress, {}),
        ("P&C-RK4", EvolveMethod.prop_and_compress_tdrk4, {}),
        ("P&C-RK", EvolveMethod.prop_and_compress_tdrk, {"rk_solver": "Kutta_RK3"}),
        ("PS", EvolveMethod.tdvp_ps, {}),
        ("PS2", EvolveMethod.tdvp_ps2, {}),
        ("VMF", EvolveMethod.tdvp_vmf, {"ivp_rtol": 1e-4, "ivp_atol": 1e-6}),
        ("MU-VMF", EvolveMethod.tdvp_mu_vmf, {"ivp_rtol": 1e-4, "ivp_atol": 1e-6}),
        ("CMF", EvolveMethod.tdvp_mu_cmf, {"ivp_solver": "RK45"}),
    ]
    for name, method, kw in schemes:
        for imag in (False, True):
            if imag and name in ("P&C-RK4", "P&C-RK"):
                continue
            def ev(st, method=method, kw=kw, imag=imag, name=name):
                a = st.regs["a"]
                a.evolve_config = EvolveConfig(method, **kw)
                a.compress_config = CompressConfig(CompressCriteria.fixed, max_bonddim=3)
                dt = -0.05j if imag else 0.05
                if a.site_num == 1 and name == "PS2":
                    raise M.Disabled("two-site scheme on one site")
                r = dynamic(lambda: a.evolve(st.regs["O"], dt), st)
                st.regs["a"] = r
                refresh(st, "a")
            acts.append(M.Action(f"a=a.evolve(O,{name},{'imag' if imag else 'real'})", ev))
    return acts


def build(fam, n, sec, seed):
    ch = _chain(fam, n, seed)
    m = 8 if fam == "two" else 3
    st = M.State()
    st.regs["a"] = ch.random_mps(list(sec), m, "a")
    st.regs["b"] = ch.random_mps(list(sec), max(2, m - 1), "b", cplx=True)
    st.regs["O"] = ch.mpo_neutral()
    P = ch.mpo_raising()
    if P is not None:
        st.regs["P"] = P
    for k, v in st.regs.items():
        st.sh[k] = M.dense_of(v)
    st.aux["exp_a"] = tuple(sec)
    st.aux["exp_b"] = tuple(sec)
    q = tuple(raising_charge(fam))

    base = A.gauge_actions(n, targets=("a", "b"), with_complex=True, move_all=False) + \
        A.operator_gauge_actions(has_P=P is not None) + A.arithmetic_actions(has_P=P is not None, has_d=False)
    # wrap the charge-changing actions so that the expected sector is tracked
    wrapped = []
    for act in base:
        nm = act.name
        if nm in ("a=P.apply(a)", "b=P.apply(b)", "b=P.apply(a)", "a=Q.apply(a)", "b=a.conj()", "b=a.copy()", "Q=P.conj_trans()",
                  "Q=O.conj_trans()", "Q=O.apply(P)", "Q=P.apply(O)", "Q=O.apply(O)", "Q=Q.add(Q.scale(.5))"):
            def w(st, act=act, nm=nm):
                r = act.fn(st)
                def plus(t, c):
                    return tuple(int(x + y) for x, y in zip(t, c))
                if nm == "a=P.apply(a)":
                    st.aux["exp_a"] = plus(st.aux["exp_a"], q)
                elif nm == "b=P.apply(b)":
                    st.aux["exp_b"] = plus(st.aux["exp_b"], q)
                elif nm == "b=P.apply(a)":
                    st.aux["exp_b"] = plus(st.aux["exp_a"], q)
                elif nm in ("b=a.conj()", "b=a.copy()"):
                    st.aux["exp_b"] = st.aux["exp_a"]
                elif nm == "a=Q.apply(a)":
                    st.aux["exp_a"] = plus(st.aux["exp_a"], st.aux["q_Q"])
                elif nm == "Q=P.conj_trans()":
                    st.aux["q_Q"] = tuple(-x for x in q)
                elif nm in ("Q=O.conj_trans()", "Q=O.apply(O)"):
                    st.aux["q_Q"] = tuple(0 for _ in q)
                elif nm in ("Q=O.apply(P)", "Q=P.apply(O)"):
                    st.aux["q_Q"] = q
                return r
            wrapped.append(M.Action(nm, w))
        else:
            wrapped.append(act)
    acts = wrapped + lossy_and_dynamic_actions(n, fam)
    return st, acts


def make_invariants(ch):
    def inv_expected(state):
        out = []
        for r, key in (("a", "exp_a"), ("b", "exp_b")):
            obj = state.regs[r]
            exp = np.array(state.aux[key])
            if np.any(np.asarray(obj.qntot).reshape(-1) != exp):
                out.append(("qntot-bookkeeping", r, f"register {r}: stored qntot {np.asarray(obj.qntot).tolist()} but the sector reached by the applied charges is {exp.tolist()}"))
                continue
            d = state.sh[r] if False else M.dense_of(obj)
            nrm = np.linalg.norm(d)
            if nrm == 0 or not np.all(np.isfinite(d)):
                out.append(("not-finite-or-zero", r, f"register {r}: represented vector is zero or not finite"))
                continue
            mask = ch.sector_mask(exp)
            outside = np.linalg.norm(d[~mask])
            if outside > 1e-10 * nrm:
                out.append(("sector", r, f"register {r}: relative weight {outside / nrm:.2e} outside sector {exp.tolist()}"))
        if "Q" in state.regs and "q_Q" in state.aux:
            Q = state.regs["Q"]
            if np.any(np.asarray(Q.qntot).reshape(-1) != np.array(state.aux["q_Q"])):
                out.append(("operator-charge-bookkeeping", "Q", f"operator register Q: stored qntot {np.asarray(Q.qntot).tolist()} but its charge is {list(state.aux['q_Q'])}"))
        return out
    return [inv_expected, M.inv_labels]


def run_case(desc, seed):
    if desc.get("k") == "tree-op":
        return run_tree_op(desc, seed)
    if desc.get("k") == "tree":
        return run_tree(desc, seed)
    if desc.get("k") == "ctor":
        return run_ctor(desc, seed)
    fam, n, sec = desc["fam"], desc["n"], tuple(desc["sector"])
    ch = _chain(fam, n, seed)
    st0, acts = build(fam, n, sec, seed)
    if desc.get("prefix"):
        a, b = st0.regs["a"], st0.regs["b"]
        a.canonicalise()
        b.canonicalise()
        if desc["prefix"] == "swept-sum":
            st0.regs["a"] = a.add(b)
        else:
            st0.regs["a"] = st0.regs["O"].apply(a)
        st0.sh["a"] = M.dense_of(st0.regs["a"])
        st0.sh["b"] = M.dense_of(b)
        st0.trace = [f"prefix:{desc['prefix']}"]
    inv = make_invariants(ch)
    stats = {}
    viol = {}
    maxbond = max(max(st0.regs[r].bond_dims) for r in ("a", "b"))
    nch = len(sectors(fam, n))
    edge = list(sec) in (sectors(fam, n)[0], sectors(fam, n)[-1])
    for trace, kind, reg, msg in M.explore_depth(st0, acts, inv, desc["depth"], first=desc["shard"], stats=stats):
        last = _generic(trace[-1])
        one = ":one-site-chain" if n == 1 else ""
        if kind.startswith("exception"):
            sig = f"C06:{kind}{one}"
        else:
            sig = f"C06:{kind}:{last}{one}"
        if sig not in viol:
            viol[sig] = {"sig": sig, "msg": f"[{fam} n={n} sector={list(sec)}] trace={trace}: {msg}"}
    tr = stats.get("transitions", 0)
    aborted = ABORTS[0]
    ABORTS[0] = 0
    return {"nontrivial": tr > 0 and (maxbond > 1 or edge), "states": len(stats.get("states", [])), "transitions": tr,
            "viol": list(viol.values()), "counters": {"disabled_transitions": stats.get("disabled", 0), "aborted_dynamic": aborted},
            "outcome": "viol" if viol else "ok",
            "sample": {"desc": desc, "states": len(stats.get("states", [])), "transitions": tr}}


# ----------------------------------------------------------------------------------------------- trees

def tree_label_violation(t, basis_sets_of, tol=1e-10):
    """largest |entry| (relative to the largest entry of the tensor) that the stored labels forbid:
    for every node   sum(labels of the child bonds) + sum(sigma of the physical indices) == label of the parent bond,
    the root's single parent label being qntot.  Returns (value, description)"""
    worst, where = 0.0, ""
    for inode, node in enumerate(t.node_list):
        ten = np.asarray(node.tensor)
        qsz = np.asarray(node.qn).shape[-1]
        shape = ten.shape
        parts = [np.asarray(ch.qn) for ch in node.children] + [np.asarray(b.sigmaqn).reshape(b.nbas, -1) for b in basis_sets_of(node)]
        if len(parts) + 1 != ten.ndim:
            return np.inf, f"node {inode}: tensor rank {ten.ndim} but {len(parts)} child/physical indices + parent"
        tot = np.zeros((1,) * (ten.ndim - 1) + (qsz,), dtype=int)
        for ax, q in enumerate(parts):
            if q.shape[0] != shape[ax]:
                return np.inf, f"node {inode}: index {ax} has dimension {shape[ax]} but {q.shape[0]} labels"
            sh = [1] * (ten.ndim - 1) + [qsz]
            sh[ax] = q.shape[0]
            tot = tot + q.reshape(sh)
        pq = np.asarray(node.qn)
        if pq.shape[0] != shape[-1]:
            return np.inf, f"node {inode}: parent bond has dimension {shape[-1]} but {pq.shape[0]} labels"
        allowed = np.all(tot[..., None, :] == pq.reshape((1,) * (ten.ndim - 1) + pq.shape), axis=-1)
        scale = np.abs(ten).max()
        if scale == 0:
            continue
        bad = np.abs(ten)[~allowed].max() / scale if (~allowed).any() else 0.0
        if bad > worst:
            worst, where = bad, f"node {inode} (shape {shape})"
    return worst, where


TREE_FAMS = {"elec3": ("elec", 3), "eph3": ("eph", 3), "two3": ("two", 3)}


def tree_cases(tier):
    from mc.space import plane_trees
    from mc import trees as TR
    quick = tier == "quick"
    for famname in (("elec3", "two3") if quick else ("elec3", "eph3", "two3")):
        fam, m = TREE_FAMS[famname]
        for N in range(1, (3 if quick else 4) + 1):
            for parent in plane_trees(N):
                dists = [d for d in TR.distributions(m, N)]
                if quick:
                    # quick: one canonical distribution per occupancy pattern (which nodes are empty / how many sets per node)
                    seen, keep = set(), []
                    for d in dists:
                        k = tuple(len(g) for g in d)
                        if k not in seen:
                            seen.add(k)
                            keep.append(d)
                    dists = keep
                elif N >= 4:
                    dists = [d for d in dists if max(len(g) for g in d) <= 1]
                for dist in dists:
                    for isec, sec in enumerate(sectors(fam, m)):
                        if not quick and N >= 3 and isec not in (1, 2):
                            continue       # thorough: every distribution on <= 3 nodes, two sectors each; 4 nodes: one set per node
                        if not quick and N == 4 and famname != "elec3":
                            continue
                        if quick and famname == "two3" and sec not in ([1, 1], [1, 0], [2, 1]):
                            continue
                        if quick and famname == "two3" and N == 3 and max(len(g) for g in dist) > 1:
                            continue
                        if quick and famname == "elec3" and sec not in ([1], [2]) and N == 3:
                            continue
                        yield {"k": "tree", "fam": famname, "parent": parent, "groups": [list(g) for g in dist], "sector": sec, "n": N,
                               "depth": 2, "shard": "tree", "few_numerical": quick or N >= 3}


def run_tree(desc, seed):
    from checks import c11_ttns as C11
    from mc import trees as TR
    from mc.budget import rhs_budget, BudgetExceeded
    from mc.ref.dense import sector_projector
    from renormalizer.utils import EvolveConfig, EvolveMethod, CompressConfig, CompressCriteria
    fam, m = TREE_FAMS[desc["fam"]]
    viol = {}
    tag = f"[tree {desc['fam']} parent={desc['parent']} groups={desc['groups']} sector={desc['sector']}]"
    try:
        c0 = C11.make_ctx(desc, seed)
    except FloatingPointError:
        return {"skipped": 1, "outcome": "random-state-construction-failed"}
    charge = np.array(raising_charge(fam))
    sig_list = [np.asarray(b.sigmaqn) for b in c0.basis]
    c0.sec = {"a": np.array(desc["sector"]), "b": np.array(desc["sector"])}
    transitions = states = 0
    aborted = 0
    maxbond = 1

    def basis_sets_of(t):
        return lambda node: t.tn2bn[node].basis_sets

    def add(sig, msg):
        if sig not in viol:
            viol[sig] = {"sig": sig, "msg": msg}

    def check(c, trace):
        ok = True
        for r in ("a", "b"):
            t = getattr(c, r)
            last = trace[-1] if trace else "initial"
            try:
                d = TR.dense_state(t, c.order)
            except Exception as e:
                add(f"C06:tree:exception-in-observer:{type(e).__name__}", f"{tag} trace={trace}: {e!r}")
                return False
            nrm = np.linalg.norm(d)
            if nrm == 0 or not np.all(np.isfinite(d)):
                return False
            want = c.sec[r]
            mask = sector_projector(sig_list, want)
            out = np.linalg.norm(d[~mask]) / nrm
            if out > 1e-10:
                add(f"C06:tree:outside-sector:{last}", f"{tag} trace={trace}: register {r} has relative amplitude {out:.2e} outside sector {want.tolist()}")
                ok = False
            if np.any(np.asarray(t.qntot) != want):
                add(f"C06:tree:qntot:{last}", f"{tag} trace={trace}: register {r} stores qntot {np.asarray(t.qntot).tolist()}, expected {want.tolist()}")
                ok = False
            v, where = tree_label_violation(t, basis_sets_of(t))
            if v > 1e-10:
                add(f"C06:tree:label:{last}", f"{tag} trace={trace}: register {r}: entry of relative size {v:.2e} in a block the stored labels forbid, {where}")
                ok = False
        return ok

    def extra_actions(c):
        E = {}
        for scheme, method in (("pc", EvolveMethod.prop_and_compress_tdrk4), ("ps", EvolveMethod.tdvp_ps), ("ps2", EvolveMethod.tdvp_ps2), ("vmf", EvolveMethod.tdvp_vmf)):
            for timek, dt in (("real", 0.1), ("imag", -0.1j)):
                if desc.get("few_numerical") and (scheme, timek) not in (("pc", "real"), ("ps", "imag"), ("ps2", "real"), ("vmf", "real")):
                    continue
                def ev(method=method, dt=dt):
                    c.a.canonicalise()
                    c.a.evolve_config = EvolveConfig(method, force_ovlp=False, ivp_rtol=1e-4, ivp_atol=1e-7)
                    c.a.compress_config = CompressConfig(CompressCriteria.fixed, max_bonddim=4)
                    with rhs_budget(3000):
                        c.a = c.a.evolve(c.H, dt)
                E[f"a=a.evolve[{scheme},{timek}]"] = ev

        def trunc():
            if len(c.parent) == 1:
                raise C11.Skip()
            c.a.canonicalise()
            c.a.compress_config = CompressConfig(CompressCriteria.fixed, max_bonddim=1)
            c.a.compress()
        E["a.compress(M=1)"] = trunc

        def opt():
            from renormalizer.tn.gs import optimize_ttns
            if len(c.parent) == 1:
                raise C11.Skip()
            c.a.canonicalise()
            optimize_ttns(c.a, c.H, procedure=[[3, 0.3], [4, 0]])
        E["optimize_ttns(a)"] = opt
        return E

    base_names = list(C11.actions(c0))
    extra_names = list(extra_actions(c0))
    names = base_names + extra_names

    def clone_ctx(c):
        c2 = C11.Ctx()
        c2.__dict__.update(c.__dict__)
        c2.a, c2.b = TR.clone_ttns(c.a), TR.clone_ttns(c.b)
        c2.sh = {k: v.copy() for k, v in c.sh.items()}
        c2.sec = {k: v.copy() for k, v in c.sec.items()}
        return c2

    def do(c, nm, trace):
        nonlocal transitions, states, aborted, maxbond
        acts = dict(C11.actions(c))
        acts.update(extra_actions(c))
        try:
            acts[nm]()
        except C11.Skip:
            return False
        except BudgetExceeded:
            aborted += 1
            return False
        except Exception as e:
            import sys
            import traceback
            tb = traceback.extract_tb(sys.exc_info()[2])
            lib = [f.name for f in tb if "/renormalizer/" in f.filename]
            if isinstance(e, AssertionError) and lib and lib[-1] in ("compress_recursion", "add", "check_canonical"):
                return False          # explicit refusals
            if lib and lib[-1] in LABEL_FRAMES_TREE:
                add(f"C06:tree:exception:{type(e).__name__}:{lib[-1]}", f"{tag} trace={trace + [nm]}: {e!r}")
            else:
                aborted += 1          # accuracy / robustness of the numerical drivers is owned by C08 / C11 / C12
            return False
        transitions += 1
        states += 1
        if nm == "a=P.apply(a)":
            c.sec["a"] = c.sec["a"] + charge
        if not check(c, trace + [nm]):
            return False
        maxbond = max(maxbond, max(list(c.a.bond_dims) or [1]))
        return True

    if not check(c0, []):
        return {"nontrivial": True, "viol": list(viol.values()), "outcome": "tree:viol"}

    def dfs(c, trace, d):
        if d >= desc["depth"]:
            return
        for nm in names:
            if d > 0 and nm in extra_names and trace[-1] in extra_names:
                continue      # two expensive numerical steps in a row add nothing to the label bookkeeping
            c2 = clone_ctx(c)
            if do(c2, nm, trace):
                dfs(c2, trace + [nm], d + 1)
    dfs(c0, [], 0)
    return {"nontrivial": transitions > 0 and (maxbond > 1 or len(desc["parent"]) == 1), "states": states, "transitions": transitions,
            "viol": list(viol.values()), "counters": {"tree_aborted_dynamic": aborted}, "outcome": "tree:viol" if viol else "tree:ok",
            "sample": {"desc": desc, "transitions": transitions}}


# ----------------------------------------------------------------------------------------------- tree operators, every construction algorithm

def tree_op_cases(tier):
    """one case = (family, tree, distribution of the basis sets over the nodes incl. several sets per node, construction algorithm): every operator of a
    small alphabet (conserving Hamiltonian, the raising sum, one raising and one lowering operator per charged degree of freedom) built with that
    algorithm, applied to a state of every sector"""
    from mc.space import plane_trees
    from mc import trees as TR
    for famname in ("elec3", "eph3", "two3"):
        fam, m = TREE_FAMS[famname]
        for N in range(1, 4):
            for parent in plane_trees(N):
                dists = list(TR.distributions(m, N))
                if tier == "quick":
                    # quick: per occupancy pattern (how many sets on which node) the first and the last distribution
                    by = {}
                    for d in dists:
                        by.setdefault(tuple(len(g) for g in d), []).append(d)
                    dists = [d for v in by.values() for d in ([v[0], v[-1]] if len(v) > 1 else v)]
                for dist in dists:
                    if tier == "quick" and famname == "eph3" and max(len(g) for g in dist) < 2:
                        continue
                    for algo in ("qr", "Hopcroft-Karp", "Hungarian"):
                        yield {"k": "tree-op", "fam": famname, "parent": parent, "groups": [list(g) for g in dist], "n": N, "algo": algo, "shard": "tree-op"}


def run_tree_op(desc, seed):
    from checks import c11_ttns as C11
    from mc import trees as TR
    from mc.ref.dense import sector_projector
    from renormalizer.model import Op
    from renormalizer.tn import TTNO
    fam, m = TREE_FAMS[desc["fam"]]
    viol = {}
    algo = desc["algo"]
    tag = f"[tree operator, {desc['fam']} parent={desc['parent']} groups={desc['groups']} algo={algo}]"

    def add(sig, msg):
        if sig not in viol:
            viol[sig] = {"sig": sig, "msg": msg}
    napplied = 0
    c = None
    for sec in sectors(fam, m):
        d = dict(desc, sector=sec)
        try:
            c = C11.make_ctx(d, seed)
        except FloatingPointError:
            continue
        sig_list = [np.asarray(b.sigmaqn) for b in c.basis]
        ops = {"H": (c.h_terms, np.zeros(len(sec), dtype=int)), "P": (c.r_terms, np.array(raising_charge(fam)))}
        for i, b in enumerate(c.basis):
            if fam == "two":
                q = np.asarray(b.sigmaqn)[1] - np.asarray(b.sigmaqn)[0]
                ops[f"raise[{i}]"] = ([Op("sigma_-", b.dofs[0], 0.8, qn=[q.tolist()])], q)
                ops[f"lower[{i}]"] = ([Op("sigma_+", b.dofs[0], 0.8, qn=[(-q).tolist()])], -q)
            elif b.is_electron:
                ops[f"raise[{i}]"] = ([Op(r"a^\dagger", b.dofs[0], 0.8)], np.array([1]))
                ops[f"lower[{i}]"] = ([Op("a", b.dofs[0], 0.8)], np.array([-1]))
        for oname, (terms, charge) in ops.items():
            if not terms:
                continue
            try:
                O = TTNO(c.tree, terms, algo=algo)
                Od = np.asarray(O.todense(c.order))
            except Exception as e:
                add(f"C06:tree-op:construction-exception:{type(e).__name__}", f"{tag} operator {oname}: {e!r}")
                continue
            if np.any(np.asarray(O.qntot) != charge):
                add(f"C06:tree-op:qntot:{algo}", f"{tag} operator {oname}: stored qntot {np.asarray(O.qntot).tolist()}, the operator changes the quantum number by {charge.tolist()}")
            want = np.asarray(sec) + charge
            mask = sector_projector(sig_list, want)
            try:
                out = O.apply(c.a)
                dd = TR.dense_state(out, c.order)
            except Exception as e:
                add(f"C06:tree-op:apply-exception:{type(e).__name__}:{algo}", f"{tag} operator {oname} on sector {sec}: {e!r}")
                continue
            napplied += 1
            ref = Od @ c.sh["a"]
            if np.abs(dd - ref).max() > 1e-9 * max(1.0, np.abs(ref).max()):
                add(f"C06:tree-op:applied-vector:{algo}", f"{tag} operator {oname} on sector {sec}: O|psi> differs from the dense product")
            if np.linalg.norm(ref) < 1e-12:
                continue
            if np.any(np.asarray(out.qntot) != want):
                add(f"C06:tree-op:applied-qntot:{algo}", f"{tag} operator {oname} on sector {sec}: result labelled {np.asarray(out.qntot).tolist()}, expected {want.tolist()}")
            if np.linalg.norm(dd[~mask]) > 1e-10 * np.linalg.norm(dd):
                add(f"C06:tree-op:applied-outside-sector:{algo}", f"{tag} operator {oname} on sector {sec}: amplitude outside sector {want.tolist()}")
            v, where = tree_label_violation(out, lambda node, t=out: t.tn2bn[node].basis_sets)
            if v > 1e-10:
                add(f"C06:tree-op:applied-label:{algo}", f"{tag} operator {oname} on sector {sec}: entry of relative size {v:.2e} in a block the stored labels forbid, {where}")
            else:
                # the labels must also survive a gauge sweep and a lossless truncation (they select the blocks there)
                try:
                    o2 = TR.clone_ttns(out)
                    o2.canonicalise()
                    if len(desc["parent"]) > 1:          # a single node has no bond to truncate (the library refuses)
                        C11.lossless(o2)
                        o2.compress()
                    d2 = TR.dense_state(o2, c.order)
                    if np.abs(d2 - ref).max() > 1e-8 * max(1.0, np.abs(ref).max()):
                        add(f"C06:tree-op:applied-then-swept:{algo}", f"{tag} operator {oname} on sector {sec}: O|psi> changes under a gauge sweep + lossless truncation")
                except Exception as e:
                    add(f"C06:tree-op:sweep-exception:{type(e).__name__}:{algo}", f"{tag} operator {oname} on sector {sec}: {e!r}")
    return {"nontrivial": napplied > 0, "viol": list(viol.values()), "counters": {"tree_operators_applied": napplied}, "outcome": "tree-op:viol" if viol else "tree-op:ok",
            "sample": {"desc": desc, "applied": napplied}}


LABEL_FRAMES_TREE = {"get_qnmat", "get_qnmask", "svd_qn", "eigh_qn", "get_qn_mask", "add_outer", "compress_node", "decompose_to_parent", "decompose_to_child",
                     "update_2site", "truncate_tensors", "merge_to_parent", "merge_to_child"}


# ----------------------------------------------------------------------------------------------- sector-aware constructors

def local_alphabet(b):
    """every way to hand one site's local state to hartree_product_state: integer index, unit vectors with either sign and a phase,
    and normalised combinations of two states with the same quantum number (both signs)"""
    d = b.nbas
    sq = np.asarray(b.sigmaqn).reshape(d, -1)
    out = [("int", k, k) for k in range(d)]
    for k in range(d):
        e = np.zeros(d)
        e[k] = 1.0
        out.append(("+e", k, e.copy()))
        out.append(("-e", k, -e))
    for j in range(d):
        for k in range(j + 1, d):
            if np.all(sq[j] == sq[k]):
                v = np.zeros(d)
                v[j], v[k] = 0.6, 0.8
                out.append(("mix", (j, k), v.copy()))
                out.append(("-mix", (j, k), -v))
                w = np.zeros(d)
                w[j], w[k] = -0.6, 0.8
                out.append(("mix+-", (j, k), w))
    return out


def ctor_cases(tier):
    for fam, n in (("elec", 3), ("two", 3), ("mixed", 3), ("eph", 3)):
        for qn_idx in list(range(n)) + [None]:
            yield {"k": "ctor", "fam": fam, "n": n, "qn_idx": qn_idx, "depth": 0, "shard": "ctor"}


def run_ctor(desc, seed):
    import itertools
    from renormalizer.mps import Mps
    from renormalizer.utils import CompressConfig, CompressCriteria
    from mc.ref.dense import kron_all, sector_projector
    fam, n = desc["fam"], desc["n"]
    ch = _chain(fam, n, seed)
    basis = list(ch.basis)
    alph = [local_alphabet(b) for b in basis]
    sig = [np.asarray(b.sigmaqn).reshape(b.nbas, -1) for b in basis]
    viol = {}
    nb = 0

    def add(sig_, msg):
        if sig_ not in viol:
            viol[sig_] = {"sig": sig_, "msg": msg}

    for combo in itertools.product(*alph):
        cond = {}
        vecs = []
        qexp = np.zeros(sig[0].shape[1], dtype=int)
        kinds = []
        for b, (kind, idx, val), sq in zip(basis, combo, sig):
            dof = b.dofs[0]
            cond[dof] = val
            kinds.append(kind)
            if isinstance(val, int):
                v = np.zeros(b.nbas)
                v[val] = 1.0
                qexp = qexp + sq[val]
            else:
                v = np.asarray(val, dtype=float)
                qexp = qexp + sq[np.nonzero(v)[0][0]]
            vecs.append(v.reshape(-1, 1))
        ref = kron_all(vecs).reshape(-1)
        klass = "+".join(sorted(set(kinds)))
        tag = f"[{fam} n={n} qn_idx={desc['qn_idx']}] condition {[(k, str(i)) for k, i, _ in combo]}"
        try:
            mps = Mps.hartree_product_state(ch.new_model(), cond, qn_idx=desc["qn_idx"])
        except Exception as e:
            add(f"C06:ctor:exception:{type(e).__name__}", f"{tag}: {e!r}")
            continue
        nb += 1
        d = M.dense_of(mps)
        if not np.allclose(d, ref, atol=1e-12):
            add("C06:ctor:vector", f"{tag}: dense vector differs from the Kronecker product of the local states")
            continue
        if np.any(np.asarray(mps.qntot).reshape(-1) != qexp):
            add(f"C06:ctor:qntot:{klass}", f"{tag}: qntot {np.asarray(mps.qntot).tolist()} but the amplitude lies in sector {qexp.tolist()}")
            continue
        mask = sector_projector(sig, qexp)
        if np.linalg.norm(d[~mask]) > 1e-12:
            add("C06:ctor:sector", f"{tag}: amplitude outside sector {qexp.tolist()}")
        v, where = M.label_violation(mps)
        if v > 1e-10:
            add(f"C06:ctor:label:{klass}", f"{tag}: entry of relative size {v:.2e} in a block the stored labels forbid ({where})")
            continue
        if desc["qn_idx"] is not None and mps.qnidx != desc["qn_idx"]:
            add("C06:ctor:qnidx", f"{tag}: centre at {mps.qnidx}")
        # the labels must survive a gauge sweep
        try:
            mps.ensure_left_canonical()
            mps.ensure_right_canonical()
            d2 = M.dense_of(mps)
            if not np.allclose(d2, ref, atol=1e-10):
                add(f"C06:ctor:sweep:{klass}", f"{tag}: canonicalising the product state changed it by {np.abs(d2 - ref).max():.2e}")
        except Exception as e:
            add(f"C06:ctor:sweep:exception:{type(e).__name__}", f"{tag}: {e!r}")
    if desc["qn_idx"] is None:
        # operators whose minus signs are SPELLED with the symbolic algebra (unary minus, subtraction) instead of a negative factor: the
        # charge the operator carries (qntot), its bond labels and the sector it maps a state to must be those of the plain spelling
        from renormalizer.model import OpSum
        from renormalizer.mps import Mpo
        for oname, terms, charge in (("raising", ch.r_terms, np.array(raising_charge(fam))), ("neutral", ch.h_terms, np.zeros(len(raising_charge(fam)), dtype=int))):
            if not terms:
                continue
            D = np.asarray(Mpo(ch.new_model(), terms).todense())
            spellings = {"unary-minus": lambda: [-t for t in terms],
                         "t - 2t": lambda: [x for t in terms for x in (t - 2 * t)],
                         "OpSum - OpSum": lambda: list(OpSum(list(terms)) - OpSum([2 * t for t in terms]))}
            for sname, mk in spellings.items():
                tagop = f"[{fam} n={n}] {oname} operator spelled with {sname}"
                try:
                    O = Mpo(ch.new_model(), mk())
                    got = np.asarray(O.todense())
                except Exception as e:
                    add(f"C06:operator-spelling:exception:{type(e).__name__}", f"{tagop}: {e!r}")
                    continue
                nb += 1
                if not np.allclose(got, -D, atol=1e-10 * max(1.0, np.abs(D).max())):
                    add("C06:operator-spelling:dense", f"{tagop}: dense matrix is not minus the plain operator")
                if np.any(np.asarray(O.qntot).reshape(-1) != charge):
                    add(f"C06:operator-spelling:qntot:{sname}", f"{tagop}: qntot {np.asarray(O.qntot).tolist()}, the operator changes the quantum number by {charge.tolist()}")
                    continue
                v, where = M.label_violation(O)
                if v > 1e-10:
                    add(f"C06:operator-spelling:label:{sname}", f"{tagop}: entry of relative size {v:.2e} in a block the stored labels forbid ({where})")
                    continue
                # applied to a state of the lowest non-trivial sector
                secs = sectors(fam, n)
                sec0 = secs[1] if len(secs) > 2 else secs[0]
                try:
                    st_ = ch.random_mps(list(sec0), 3, "opsp")
                    out = O.apply(st_)
                    out.ensure_left_canonical()
                    dd = M.dense_of(out)
                    want = np.array(sec0) + charge
                    if np.linalg.norm(dd) > 1e-12:
                        maskq = sector_projector(sig, want)
                        if np.linalg.norm(dd[~maskq]) > 1e-10 * np.linalg.norm(dd) or np.any(np.asarray(out.qntot).reshape(-1) != want):
                            add(f"C06:operator-spelling:applied-state:{sname}", f"{tagop}: applied to a state of sector {list(sec0)} the result is labelled {np.asarray(out.qntot).tolist()} / lies outside sector {want.tolist()}")
                        ref_ = -D @ M.dense_of(st_)
                        if not np.allclose(dd, ref_, atol=1e-9 * max(1.0, np.abs(ref_).max())):
                            add(f"C06:operator-spelling:applied-state-vector:{sname}", f"{tagop}: O|psi> after a gauge sweep differs from the dense product")
                except Exception as e:
                    add(f"C06:operator-spelling:apply-exception:{type(e).__name__}:{sname}", f"{tagop}: applying it to a state of sector {list(sec0)} and sweeping raised {e!r}")
    return {"nontrivial": nb > 0, "states": nb, "transitions": 2 * nb, "viol": list(viol.values()), "counters": {"product_states_built": nb},
            "outcome": "ctor:viol" if viol else "ctor:ok", "sample": {"desc": desc, "product_states": nb}}


def _generic(name):
    import re
    return re.sub(r"move_qnidx\(\d+\)", "move_qnidx(j)", name)
