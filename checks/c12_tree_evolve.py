"""C12 -- tree tensor network time evolution matches the exact propagator.   (E1 + E4)

Every plane tree with 2..N nodes x placement variants {one basis set per node, one node carrying two basis sets, one purely
virtual node as root / internal / leaf} x the four tree schemes (variable mean field, propagation-and-compression, one-site
and two-site projector splitting) x real / imaginary time x step ladder x 1..3 steps x models x sectors:
   * with sufficient bond dimension the dense vector x prefactor equals expm(-iHt) psi (resp. normalised expm(-tau H) psi)
     within the scheme's error envelope, and the error shrinks with the step at the scheme's order;
   * the sector is conserved; the input state is not disturbed (the object returned is not the input);
   * one-site projector splitting conserves norm and energy to solver precision at ANY (truncated) bond dimension;
   * a linear tree agrees with the chain implementation of the same scheme within the envelope;
   * density-operator-like states with auxiliary degrees of freedom (operator acting on the physical half only);
   * per-bond limits (compress_config.max_dims) given as exact dimensions do not truncate (two-site scheme).
"""
import functools
import itertools

import numpy as np
import scipy.linalg

from mc import env  # noqa: F401
from mc import trees as TR
from mc.chains import basis_list, neutral_terms, sectors, Chain
from mc.space import plane_trees
from mc.ref.dense import close, rel_err, sector_projector

ID = "C12"
LEVEL = "exploration"
RULE = ("one case = (family, plane tree, placement variant, sector, scheme, real/imag) running the whole step ladder and 1..3 steps; non-trivial = "
        "the initial state has a bond dimension > 1 and the propagated state differs from the initial one by more than 1e-3; distinct = distinct descriptor")
ASSUMPTIONS = [
    "error envelopes (n steps, x = ||H|| dt): P&C (4th order Taylor) 3 n x^5/120 + 1e-8; PS / PS2 (2nd order splitting) 0.1 n x^3 + 1e-8; VMF (RK45, rtol 1e-6) 1e-5 max(1,||H||) t + 1e-6; "
    "constants sit about one order of magnitude above the largest error observed on the unchanged tree for seeds 0..4",
    "order check (real time): halving dt must reduce the one-step error by at least 2^(p+1-0.6) while the error is above 1e-7/1e-9",
    "tensor entries are seeded (TTNS.random), Hamiltonian coefficients seeded",
]
HORIZON_S = 900
HEAVY_CASES = True
DTS = [0.2, 0.1, 0.05]
SCHEMES = ["vmf", "pc", "ps", "ps2"]


def COST(desc):
    return len(desc["parent"]) ** 2 * {"vmf": 6, "pc": 2, "ps": 1, "ps2": 1}[desc["scheme"]]


def BOUND(tier):
    return {"trees": "plane trees with 2..4 nodes" + ("" if tier == "quick" else " (and 5 nodes, one set per node)"),
            "variants": ["one set per node", "one node with two sets", "virtual node at every position"],
            "dt": DTS, "steps": [1, 2, 3], "schemes": SCHEMES, "time": ["real", "imaginary"]}


def placements(parent):
    """(m, groups) variants for a plane tree with N nodes"""
    N = len(parent)
    out = [(N, [[i] for i in range(N)], "one-per-node")]
    # one node with two sets (every node position)
    for k in range(N):
        g = []
        nxt = 0
        for i in range(N):
            if i == k:
                g.append([nxt, nxt + 1])
                nxt += 2
            else:
                g.append([nxt])
                nxt += 1
        out.append((N + 1, g, f"two-sets-at-{k}"))
    # one virtual node (every node position), needs N >= 2
    if N >= 3:
        for k in range(N):
            g = []
            nxt = 0
            for i in range(N):
                if i == k:
                    g.append([])
                else:
                    g.append([nxt])
                    nxt += 1
            out.append((N - 1, g, f"dummy-at-{k}"))
    return out


def cases(tier, seed):
    quick = tier == "quick"
    for fam in ("elec", "eph", "two"):
        for N in ((2, 3, 4) if quick else (2, 3, 4, 5)):
            if fam == "two" and N > (3 if quick else 4):
                continue       # two-component labels: the label bookkeeping is what differs, small trees suffice
            for parent in plane_trees(N):
                for m, groups, vname in placements(parent):
                    if m > 4 or m < 2:
                        continue
                    if N == 5 and vname != "one-per-node":
                        continue
                    if quick and fam == "eph" and (N == 4 or vname.startswith("two-sets")):
                        continue
                    secs = sectors(fam, m)
                    for isec, sec in enumerate(secs):
                        if isec == 0 and fam in ("elec", "two"):
                            continue       # empty sector: nothing moves
                        if fam == "two" and sec not in ([1, 1], [1, 0], [2, 1]):
                            continue
                        if quick and isec not in (1, 2):
                            continue
                        for scheme in SCHEMES:
                            for timek in ("real", "imag"):
                                if quick and N == 4 and scheme == "vmf" and timek == "imag":
                                    continue
                                yield {"fam": fam, "parent": parent, "groups": groups, "m": m, "variant": vname, "sector": sec,
                                       "scheme": scheme, "time": timek}
    # deep trees: a non-last child that carries a chain of last children (root[a[b[c]], d], root[a[b[c]], d[e, f]], ...): the order in which
    # the one-site scheme revisits environments only matters from this depth on
    for parent in ([-1, 0, 1, 2, 0], [-1, 0, 1, 2, 0, 4, 4], [-1, 0, 1, 2, 3, 0, 5, 5]):
        m = len(parent)
        for fam, sec in (("elec", [2]), ("spin", [0])):
            if fam == "spin" and m > 5:
                continue
            for scheme in ("ps", "ps2"):
                yield {"fam": fam, "parent": parent, "groups": [[i] for i in range(m)], "m": m, "variant": "deep", "sector": sec,
                       "scheme": scheme, "time": "real"}
    for fam in ("elec", "eph"):
        for m in (2, 3, 4):
            for sec in sectors(fam, m)[1:2]:
                for scheme in ("ps", "ps2", "pc", "vmf"):
                    yield {"fam": fam, "parent": list(range(-1, m - 1)), "groups": [[i] for i in range(m)], "m": m, "variant": "chain-comparison",
                           "sector": sec, "scheme": scheme, "time": "real"}
    for N in (2, 3):
        for parent in plane_trees(N):
            for scheme in SCHEMES:
                yield {"fam": "eph", "parent": parent, "groups": [[i] for i in range(N)], "m": N, "variant": "auxiliary-space", "sector": [1],
                       "scheme": scheme, "time": "imag"}
    # nodes that carry two basis sets (so that a node of the auxiliary tree has physical indices P0 Q0 P1 Q1)
    for groups in ([[0, 1], [2]], [[0], [1, 2]]):
        for scheme in SCHEMES:
            yield {"fam": "eph", "parent": [-1, 0], "groups": groups, "m": 3, "variant": "auxiliary-space", "sector": [1], "scheme": scheme, "time": "imag"}


def envelope(scheme, hnorm, dt, nsteps):
    x = hnorm * dt
    if scheme == "pc":
        return 3 * nsteps * x ** 5 / 120 + 1e-8
    if scheme in ("ps", "ps2"):
        # second-order splitting; where all bonds are complete the backward steps cancel and the error is at the Krylov
        # tolerance, in symmetry-restricted bonds a genuine O(dt^3) term remains (largest observed over seeds 0..4: 2.3e-3 x^3)
        return 0.1 * nsteps * x ** 3 + 1e-8
    return 1e-5 * max(1.0, hnorm) * dt * nsteps + 1e-6


ORDER = {"pc": 4, "ps": 2, "ps2": 2}


def configure(t, scheme, M=None, max_dims=None):
    from renormalizer.utils import EvolveConfig, EvolveMethod, CompressConfig, CompressCriteria
    method = {"vmf": EvolveMethod.tdvp_vmf, "pc": EvolveMethod.prop_and_compress_tdrk4, "ps": EvolveMethod.tdvp_ps, "ps2": EvolveMethod.tdvp_ps2}[scheme]
    t.evolve_config = EvolveConfig(method, force_ovlp=False, ivp_rtol=1e-6, ivp_atol=1e-9)
    t.compress_config = CompressConfig(CompressCriteria.fixed, max_bonddim=M if M else 10 ** 4)
    if max_dims is not None:
        t.compress_config.max_dims = np.array(max_dims)


def add(viol, sig, msg):
    if sig not in viol:
        viol[sig] = {"sig": sig, "msg": msg}


def run_case(desc, seed):
    from renormalizer.tn import TTNS, TTNO
    from mc.budget import rhs_budget, BudgetExceeded
    fam, m, parent, groups, scheme, timek = desc["fam"], desc["m"], desc["parent"], [tuple(g) for g in desc["groups"]], desc["scheme"], desc["time"]
    viol = {}
    tag = f"[{fam} m={m} tree={parent} groups={desc['groups']} sector={desc['sector']} {scheme} {timek}]"
    basis = basis_list(fam, m)
    dims = [b.nbas for b in basis]
    rs = env.rng(seed, ("c12", fam, m))
    h_terms = neutral_terms(fam, m, rs)
    if desc["variant"] == "auxiliary-space":
        return run_aux(desc, seed, basis, h_terms, viol, tag)
    order = list(basis)

    def fresh(M=6):
        tree = TR.build_basis_tree(parent, groups, basis)
        H = TTNO(tree, h_terms)
        env.reseed(seed, ("c12s", fam, m, tuple(parent), tuple(groups), tuple(desc["sector"])))
        t = TTNS.random(tree, np.array(desc["sector"]), M)
        t.canonicalise()
        t.canonicalise()
        return tree, H, t

    try:
        tree, H, t0 = fresh()
    except FloatingPointError:
        return {"skipped": 1, "outcome": "random-state-construction-failed"}
    Hd = np.asarray(H.todense(order))
    hnorm = np.abs(np.linalg.eigvalsh((Hd + Hd.conj().T) / 2)).max()
    psi0 = TR.dense_state(t0, order)
    mask = sector_projector([np.asarray(b.sigmaqn) for b in basis], desc["sector"])
    maxbond = max(t0.bond_dims)
    moved = False
    nrun = 0
    one_step_err = {}

    def exact(tt):
        if timek == "real":
            return scipy.linalg.expm(-1j * tt * Hd) @ psi0
        v = scipy.linalg.expm(-tt * Hd) @ psi0
        return v / np.linalg.norm(v) * np.linalg.norm(psi0)

    for dt in DTS:
        for nsteps in (1, 2, 3):
            tree, H, t = fresh()
            configure(t, scheme)
            snap = TR.dense_state(t, order)
            cur = t
            try:
                with rhs_budget(60000):
                    for k in range(nsteps):
                        prev = cur
                        prev_snap = TR.dense_state(prev, order)
                        cur = prev.evolve(H, dt if timek == "real" else -1j * dt)
                        nrun += 1
                        if cur is prev:
                            add(viol, f"C12:returns-input-object:{scheme}:{timek}", f"{tag}: evolve returned the input object itself")
                        elif not close(TR.dense_state(prev, order), prev_snap, 1e-9):
                            add(viol, f"C12:input-disturbed:{scheme}:{timek}", f"{tag}: the input state changed by rel {rel_err(TR.dense_state(prev, order), prev_snap):.2e} during evolve")
            except BudgetExceeded:
                add(viol, f"C12:horizon:{scheme}", f"{tag} dt={dt}: more than 60000 right-hand-side evaluations")
                continue
            except AssertionError as e:
                import sys
                import traceback
                tb = traceback.extract_tb(sys.exc_info()[2])
                lib = [f.name for f in tb if "/renormalizer/" in f.filename]
                if lib and lib[-1] in ("_tdvp_ps2_recursion_forward", "compress_recursion") and len(parent) == 1:
                    return {"rejected": 1, "outcome": "single-node-refused"}
                add(viol, f"C12:exception:AssertionError:{lib[-1] if lib else '?'}:{scheme}", f"{tag} dt={dt} steps={nsteps}: {e!r}")
                continue
            except Exception as e:
                import sys
                import traceback
                tb = traceback.extract_tb(sys.exc_info()[2])
                lib = [f.name for f in tb if "/renormalizer/" in f.filename]
                add(viol, f"C12:exception:{type(e).__name__}:{lib[-1] if lib else '?'}:{scheme}", f"{tag} dt={dt} steps={nsteps}: {e!r}")
                continue
            phi = TR.dense_state(cur, order)
            ref = exact(dt * nsteps)
            if timek == "imag":
                # evolve normalises ("mps_and_coeff"): compare directions and norms separately
                if abs(np.linalg.norm(phi) - 1.0) > 1e-8 and abs(np.linalg.norm(psi0) - 1) < 1e-10:
                    add(viol, f"C12:imag-not-normalised:{scheme}", f"{tag} dt={dt} steps={nsteps}: norm {np.linalg.norm(phi)}")
                ref = ref / np.linalg.norm(ref) * np.linalg.norm(phi)
            err = np.linalg.norm(phi - ref) / max(np.linalg.norm(ref), 1e-300)
            if np.linalg.norm(ref - psi0 / np.linalg.norm(psi0) * np.linalg.norm(ref)) > 1e-3 * np.linalg.norm(ref):
                moved = True
            env_ = envelope(scheme, hnorm, dt, nsteps)
            if desc["variant"] == "deep" and scheme == "ps":
                # fixed-rank scheme on a tree too large for the random state to have complete bonds: the premise "sufficient bond
                # dimension" does not hold, the propagator is not judged (the conservation laws below are)
                env_ = np.inf
            if not np.isfinite(err) or err > env_:
                add(viol, f"C12:propagator:{scheme}:{timek}", f"{tag} dt={dt} steps={nsteps}: relative error {err:.3e} exceeds the envelope {env_:.3e} (||H||={hnorm:.2f}); bond dims {cur.bond_dims}")
            if nsteps == 1:
                one_step_err[dt] = err
            out = np.linalg.norm(phi[~mask]) / max(np.linalg.norm(phi), 1e-300)
            if out > 1e-9:
                add(viol, f"C12:sector:{scheme}", f"{tag} dt={dt}: relative weight {out:.2e} outside the sector")
            if np.any(np.asarray(cur.qntot) != np.asarray(desc["sector"])):
                add(viol, f"C12:qntot:{scheme}", f"{tag}: qntot {cur.qntot}")
    # a state that carries a scalar prefactor != 1 (left by a norm-to-prefactor normalisation, an expansion, or set by the caller): the
    # represented vector is prefactor x tensors, and it is that vector the propagator acts on
    for cf in (3.0, 0.5j):
        try:
            tree, H, t = fresh()
            configure(t, scheme)
            t.coeff = cf
            with rhs_budget(60000):
                cur = t.evolve(H, 0.1 if timek == "real" else -0.1j)
            nrun += 1
            phi = TR.dense_state(cur, order)
            ref = cf * exact(0.1)
            if timek == "imag":
                phi, ref = phi / np.linalg.norm(phi), ref / np.linalg.norm(ref)
            err = np.linalg.norm(phi - ref) / np.linalg.norm(ref)
            if not np.isfinite(err) or err > envelope(scheme, hnorm, 0.1, 1):
                add(viol, f"C12:prefactor:{scheme}:{timek}", f"{tag}: initial state with prefactor {cf}: relative error {err:.3e} of prefactor x tensors "
                    f"{'(directions compared)' if timek == 'imag' else ''} against the dense propagator applied to prefactor x initial vector; norm {np.linalg.norm(TR.dense_state(cur, order)):.6f}")
        except BudgetExceeded:
            pass
        except Exception as e:
            add(viol, f"C12:prefactor:exception:{type(e).__name__}:{scheme}", f"{tag}: prefactor {cf}: {e!r}")
    # order: halving the step reduces the one-step error at the scheme's order
    p = ORDER.get(scheme)
    # the slope is only meaningful on a regular point of the manifold: when a bond carries more states than the Schmidt rank of the
    # initial state across it (rank-deficient tangent space, e.g. a random state in a small sector) the projector-splitting error is
    # pre-asymptotic over the whole ladder (observed ratios 4.1, 4.3, 5.1, 6.5 -> 8); such cases are judged by the envelope only
    rank_deficient = False
    if p:
        subs = TR.tree_edges_bipartitions(parent, groups, len(basis))
        T = psi0.reshape(dims)
        for node, inside in subs.items():
            if not inside or len(inside) == len(basis):
                continue
            outside = [i for i in range(len(basis)) if i not in inside]
            Mx = np.transpose(T, list(inside) + outside).reshape(int(np.prod([dims[i] for i in inside])), -1)
            sv = np.linalg.svd(Mx, compute_uv=False)
            rank = int(np.sum(sv > 1e-10 * sv[0]))
            if t0.bond_dims[node] > rank:
                rank_deficient = True
    if p and len(one_step_err) == 3 and timek == "real" and not rank_deficient:
        for a, b in ((0.2, 0.1), (0.1, 0.05)):
            ea, eb = one_step_err[a], one_step_err[b]
            if ea > 1e-7 and eb > 1e-9 and ea / eb < 2 ** (p + 1 - 0.6):
                add(viol, f"C12:order:{scheme}:{timek}", f"{tag}: one-step error {ea:.3e} (dt={a}) -> {eb:.3e} (dt={b}): ratio {ea / eb:.2f} < 2^{p + 1 - 0.6:.1f}")
    # one-site projector splitting at truncated bond dimension: norm and energy
    if scheme == "ps" and timek == "real":
        for M in ((1, 2) if len(parent) < 5 else (1, 2, 3)):
            try:
                tree, H, t = fresh(M)
            except (FloatingPointError, ValueError):
                continue      # TTNS.random finds no compatible block at this bond limit (noted in DESIGN.md, not claimed)
            configure(t, scheme, M=M)
            e0 = t.expectation(H)
            n0 = t.ttns_norm
            cur = t
            for k in range(3):
                cur = cur.evolve(H, 0.15)
                nrun += 1
                if max(cur.bond_dims) > max(M, 1) and max(cur.bond_dims) > max(t.bond_dims):
                    add(viol, "C12:ps:bond-grew", f"{tag}: bond dims {cur.bond_dims} from {t.bond_dims}")
                if abs(cur.ttns_norm - n0) > 1e-8:
                    add(viol, "C12:ps:norm-not-conserved", f"{tag} M={M}: norm {n0} -> {cur.ttns_norm}")
                if abs(cur.expectation(H) - e0) > 1e-7 * max(1.0, hnorm):
                    add(viol, "C12:ps:energy-not-conserved", f"{tag} M={M}: energy {e0} -> {cur.expectation(H)} after {k + 1} steps")
    # per-bond limits equal to the exact dimensions must not truncate (two-site scheme decides bond dims itself)
    if scheme == "ps2" and len(parent) >= 2:
        try:
            tree, H, t = fresh()
            exact_dims = [int(min(x, 10 ** 6)) for x in t.bond_dims_exact]
            # bond_dims_exact counts the subtree side only; the other side bounds it as well
            D = int(np.prod(dims))
            sub = TR.tree_edges_bipartitions(parent, groups, m)
            lim = [1] * len(parent)
            for node, inside in sub.items():
                din = int(np.prod([dims[i] for i in inside])) if inside else 1
                lim[node] = max(1, min(din, D // din))
            configure(t, scheme, max_dims=lim + [1])
            cur = t.evolve(H, 0.1 if timek == "real" else -0.1j)
            nrun += 1
            phi = TR.dense_state(cur, order)
            ref = exact(0.1)
            if timek == "imag":
                ref = ref / np.linalg.norm(ref) * np.linalg.norm(phi)
            err = np.linalg.norm(phi - ref) / np.linalg.norm(ref)
            if err > envelope(scheme, hnorm, 0.1, 1):
                add(viol, "C12:ps2:per-bond-exact-limits-truncate", f"{tag}: with compress_config.max_dims = exact dimensions {lim} the error is {err:.3e}; bond dims {cur.bond_dims}")
        except FloatingPointError:
            pass
        except Exception as e:
            add(viol, f"C12:ps2:per-bond:exception:{type(e).__name__}", f"{tag}: {e!r}")
    # chain comparison
    if desc["variant"] == "chain-comparison":
        run_chain_cmp(desc, seed, viol, tag, hnorm)
    return {"nontrivial": maxbond > 1 and moved, "counters": {"evolve_calls": nrun, "order_check_skipped_rank_deficient": int(bool(p) and rank_deficient)}, "outcome": f"{scheme}:{timek}:{'viol' if viol else 'ok'}",
            "viol": list(viol.values()), "sample": {"desc": desc, "one_step_rel_err": {str(k): float(v) for k, v in one_step_err.items()}, "hnorm": float(hnorm)}}


def run_chain_cmp(desc, seed, viol, tag, hnorm):
    from renormalizer.tn.tree import from_mps
    from renormalizer.utils import EvolveConfig, EvolveMethod, CompressConfig, CompressCriteria
    ch = Chain(desc["fam"], desc["m"], seed)
    mps = ch.random_mps(desc["sector"], 8, "c12chain")
    mps.canonicalise()
    mps.canonicalise()
    basis_tree, ttns, ttno = from_mps(mps)
    scheme = desc["scheme"]
    method = {"pc": EvolveMethod.prop_and_compress_tdrk4, "ps": EvolveMethod.tdvp_ps, "ps2": EvolveMethod.tdvp_ps2, "vmf": EvolveMethod.tdvp_vmf}[scheme]
    mps.evolve_config = EvolveConfig(method, force_ovlp=False, ivp_rtol=1e-6, ivp_atol=1e-9)
    mps.compress_config = CompressConfig(CompressCriteria.fixed, max_bonddim=10 ** 4)
    configure(ttns, scheme)
    H = ch.mpo_neutral()
    order = list(mps.model.basis)
    dt = 0.1
    a = mps
    b = ttns
    if scheme != "vmf":
        for k in range(2):
            a = a.evolve(H, dt)
            b = b.evolve(ttno, dt)
        va = np.asarray(a.todense()) * a.coeff
        vb = TR.dense_state(b, order)
        err = np.linalg.norm(va - vb) / np.linalg.norm(va)
        lim = 2 * envelope(scheme, hnorm, dt, 2)
        if err > lim:
            add(viol, f"C12:chain-vs-linear-tree:{scheme}", f"{tag}: linear tree and chain differ by {err:.3e} > {lim:.3e} after 2 steps")
    # the same time step handed over in every numeric type a caller may hold it in (a complex-typed REAL step comes out of complex
    # time grids that mix real and imaginary segments): the result must not depend on the type
    from mc.budget import rhs_budget
    reps = {"real": [("float", 0.1), ("np.float64", np.float64(0.1)), ("complex(0.1,0)", complex(0.1, 0.0)), ("np.complex128(0.1)", np.complex128(0.1)), ("int-valued-float", 1.0 * 0.1), ("np.float32", np.float32(0.1)), ("0-d array", np.array(0.1))],
            "imag": [("-0.1j", -0.1j), ("np.complex128(-0.1j)", np.complex128(-0.1j)), ("complex(0,-0.1)", complex(0.0, -0.1))]}
    for timek, lst in reps.items():
        ref = None
        for name, step in lst:
            try:
                with rhs_budget(20000):
                    out_t = ttns.evolve(ttno, step)
                v = TR.dense_state(out_t, order)
            except TypeError as e:
                if "complex" in str(e):
                    continue      # a complex-typed real step is refused by the integrator (TypeError naming the type): not claimed, noted in DESIGN.md
                add(viol, f"C12:step-type:exception:TypeError:{scheme}:{timek}", f"{tag}: tree evolve with the step given as {name}: {e!r}")
                continue
            except Exception as e:
                add(viol, f"C12:step-type:exception:{type(e).__name__}:{scheme}:{timek}", f"{tag}: tree evolve with the step given as {name}: {e!r}")
                continue
            if ref is None:
                ref = v
            elif not close(v, ref, 1e-5 if name == "np.float32" else 1e-8):      # (a single-precision step differs from 0.1 by 1.5e-9)
                add(viol, f"C12:step-type:{scheme}:{timek}", f"{tag}: tree evolve with the step given as {name} differs from the step given as {lst[0][0]} by rel {rel_err(v, ref):.2e}")


def run_aux_generic(desc, seed, basis, h_terms, viol, tag, tree, tree2, H):
    """nodes with several basis sets (max_entangled_ex refuses them): a random state on the auxiliary tree is propagated by the operator
    that acts on the physical half only, against (exp(-i tau H) x 1_Q) psi; then the same operator object propagates a pure state"""
    from renormalizer.tn import TTNS, TTNO
    parent, groups, scheme = desc["parent"], [tuple(g) for g in desc["groups"]], desc["scheme"]
    order = list(basis)
    order2 = [b for b in tree2.basis_list if type(b).__name__ != "BasisDummy"]
    Hd = np.asarray(H.todense(order))
    H2d = np.asarray(TTNO(tree2, h_terms).todense(order2))
    hnorm = np.abs(np.linalg.eigvalsh((Hd + Hd.conj().T) / 2)).max()
    nrun = 0
    try:
        for which, tr, od, Hdense in (("auxiliary", tree2, order2, H2d), ("pure", tree, order, Hd)):
            env.reseed(seed, ("c12auxg", which, tuple(parent), tuple(groups)))
            t = TTNS.random(tr, np.array([1]), 6)
            t.canonicalise()
            t.canonicalise()
            psi0 = TR.dense_state(t, od)
            for timek, step in (("real", 0.05), ("imag", -0.05j)):
                configure(t, scheme)
                out = t.evolve(H, step)
                nrun += 1
                phi = TR.dense_state(out, od)
                if timek == "real":
                    refv = scipy.linalg.expm(-1j * 0.05 * Hdense) @ psi0
                else:
                    refv = scipy.linalg.expm(-0.05 * Hdense) @ psi0
                    refv = refv / np.linalg.norm(refv) * np.linalg.norm(phi)
                err = np.linalg.norm(phi - refv) / np.linalg.norm(refv)
                lim = max(envelope(scheme, hnorm, 0.05, 1), 1e-6) * (3 if timek == "imag" else 1)
                if err > lim:
                    sig = f"C12:auxiliary-space:propagator:{scheme}:{timek}" if which == "auxiliary" else f"C12:operator-reused-after-auxiliary-state:{scheme}:{timek}"
                    add(viol, sig, f"{tag}: {which} state, {timek} step: relative error {err:.3e} > {lim:.3e}")
    except FloatingPointError:
        return {"skipped": 1, "outcome": "random-state-construction-failed"}
    except Exception as e:
        import sys
        import traceback
        tb = traceback.extract_tb(sys.exc_info()[2])
        lib = [f.name for f in tb if "/renormalizer/" in f.filename]
        add(viol, f"C12:auxiliary-space:exception:{type(e).__name__}:{lib[-1] if lib else '?'}:{scheme}", f"{tag}: {e!r}")
    return {"nontrivial": True, "counters": {"evolve_calls": nrun}, "outcome": f"auxg:{scheme}:{'viol' if viol else 'ok'}", "viol": list(viol.values()),
            "sample": {"desc": desc}}


def run_aux(desc, seed, basis, h_terms, viol, tag):
    """purified (density-operator-like) state on P+Q, operator on P only, imaginary time: <O> follows the Gibbs average"""
    from renormalizer.tn import TTNS, TTNO
    from renormalizer.tn import utils_eph
    parent, groups, scheme = desc["parent"], [tuple(g) for g in desc["groups"]], desc["scheme"]
    tree = TR.build_basis_tree(parent, groups, basis)
    tree2 = tree.add_auxiliary_space()
    H = TTNO(tree, h_terms)
    if max(len(g) for g in groups) > 1:
        return run_aux_generic(desc, seed, basis, h_terms, viol, tag, tree, tree2, H)
    try:
        s = utils_eph.max_entangled_ex(tree2)
    except AssertionError:
        return {"rejected": 1, "outcome": "max_entangled_ex-refused"}
    order = list(basis)
    Hd = np.asarray(H.todense(order))
    mask = sector_projector([np.asarray(b.sigmaqn) for b in basis], [1])
    Hs = Hd[np.ix_(mask, mask)]
    beta = 0.6
    nst = 3
    cur = s
    nrun = 0
    try:
        for k in range(nst):
            # the maximally entangled state has bond dimension ~1: the first step uses propagation-and-compression, which can grow
            # the bonds ("sufficient bond dimension"); the fixed-manifold schemes take over afterwards (a history switching scheme)
            configure(cur, "pc" if (k == 0 and scheme in ("ps", "vmf")) else scheme)
            cur = cur.evolve(H, -1j * beta / 2 / nst)
            nrun += 1
    except Exception as e:
        import sys
        import traceback
        tb = traceback.extract_tb(sys.exc_info()[2])
        lib = [f.name for f in tb if "/renormalizer/" in f.filename]
        add(viol, f"C12:auxiliary-space:exception:{type(e).__name__}:{lib[-1] if lib else '?'}:{scheme}", f"{tag}: {e!r}")
        return {"nontrivial": True, "viol": list(viol.values()), "outcome": "aux-exception"}
    e = cur.expectation(H)
    w = np.linalg.eigvalsh((Hs + Hs.conj().T) / 2)
    ref = float((w * np.exp(-beta * w)).sum() / np.exp(-beta * w).sum())
    tol = {"vmf": 2e-3, "pc": 1e-4, "ps": 5e-3, "ps2": 5e-3}[scheme]
    if abs(e - ref) > tol * max(1.0, abs(ref)):
        add(viol, f"C12:auxiliary-space:thermal-energy:{scheme}", f"{tag}: <H> at beta={beta} is {e}, canonical average in the one-particle sector {ref}")
    # history across basis trees: the SAME operator object, after having been used with the auxiliary-space state, now propagates a
    # pure state on the original tree (anything the operator remembers about the state it met first would show here)
    try:
        env.reseed(seed, ("c12aux-pure", tuple(parent), tuple(groups)))
        t = TTNS.random(tree, np.array([1]), 6)
        t.canonicalise()
        t.canonicalise()
        psi0 = TR.dense_state(t, order)
        hnorm = np.abs(np.linalg.eigvalsh((Hd + Hd.conj().T) / 2)).max()
        for timek, step in (("real", 0.05), ("imag", -0.05j)):
            configure(t, scheme)
            out = t.evolve(H, step)
            nrun += 1
            phi = TR.dense_state(out, order)
            if timek == "real":
                refv = scipy.linalg.expm(-1j * 0.05 * Hd) @ psi0
            else:
                refv = scipy.linalg.expm(-0.05 * Hd) @ psi0
                refv = refv / np.linalg.norm(refv) * np.linalg.norm(phi)
            err = np.linalg.norm(phi - refv) / np.linalg.norm(refv)
            lim = max(envelope(scheme, hnorm, 0.05, 1), 1e-6) * (3 if timek == "imag" else 1)
            if err > lim:
                add(viol, f"C12:operator-reused-after-auxiliary-state:{scheme}:{timek}", f"{tag}: after propagating an auxiliary-space state the same TTNO propagates a pure state with relative error {err:.3e} > {lim:.3e}")
    except FloatingPointError:
        pass
    except Exception as e:
        import sys
        import traceback
        tb = traceback.extract_tb(sys.exc_info()[2])
        lib = [f.name for f in tb if "/renormalizer/" in f.filename]
        add(viol, f"C12:operator-reused-after-auxiliary-state:exception:{type(e).__name__}:{lib[-1] if lib else '?'}:{scheme}", f"{tag}: {e!r}")
    return {"nontrivial": True, "counters": {"evolve_calls": nrun}, "outcome": f"aux:{scheme}:{'viol' if viol else 'ok'}", "viol": list(viol.values()),
            "sample": {"desc": desc, "energy": float(np.real(e)), "gibbs": ref}}
